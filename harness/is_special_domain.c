/* jobs: is_special_domain (src/is_special_domain.c) -- property C09 (and C06).
 *
 * One job does not close for this function (DESIGN.md 2.1/7), so its contract is discharged by two jobs
 * over the same real source, split at the EAV_VERIF_AT hooks after the counting / skipping loops:
 *   -DJOB_A  positions: loop contracts over the dot-rank model of strchr; obligation at the cut: the no-dot
 *            shortcut is taken iff the string has no dot, otherwise cp == start of the second-to-last label.
 *   -DJOB_B  verdict: the cut facts are assumed; memcpy is a recording model, strncasecmp an oracle that asserts
 *            which operands / which length it is given; postcondition = the property.
 * The strings are described by ghost witnesses: g_rank[i] = number of dots in s[0..i), g_a = start of the
 * last label, g_b = start of the second-to-last label (if any).
 */
#include <models_common.h>
#include <stddef.h>
#include <eav.h>

const char *g_s; size_t g_n; size_t *g_rank; size_t g_a, g_b; int g_have_b;
int g_past_cut;

/* A4: strchr(p,'.') on the ghost-described string.  found: s[j]=='.' with no dot between p and j (equal rank);
   not found: no dot from p to the end.  The four assumptions marked "lemma" are instances of facts that follow
   from the step axiom rank[k+1] == rank[k] + (s[k]=='.') by induction; they are proved in job lemma_rank. */
char *strchr(const char *p, int c)
{
#ifdef SP_LITE
    /* before the cut the (havocked) loops are job A's business: there, and only there, the two facts below are assumed */
    if (!g_past_cut) __CPROVER_assume(c == '.' && __CPROVER_same_object(p, g_s) && (size_t)(p - g_s) <= g_n);
#endif
    __CPROVER_assert(c == '.' && __CPROVER_same_object(p, g_s), "strchr is used for '.' on the input string only");
    size_t i = (size_t)(p - g_s);
    __CPROVER_assert(i <= g_n, "SAFETY: strchr argument within the string");
    if (nondet_bool()) {
        size_t j = nondet_size();
        __CPROVER_assume(i <= j && j < g_n && p[j - i] == '.' && g_rank[j] == g_rank[i] && g_rank[j + 1] == g_rank[i] + 1);
        __CPROVER_assume((g_a >= 1 && g_rank[g_a - 1] == g_rank[j]) ==> j == g_a - 1);                /* lemma: dots of equal rank coincide */
        __CPROVER_assume((g_have_b && g_b >= 1 && g_rank[g_b - 1] == g_rank[j]) ==> j == g_b - 1);    /* lemma: dots of equal rank coincide */
        __CPROVER_assume((g_have_b && g_rank[j + 1] == g_rank[g_b]) ==> j + 1 == g_b);                /* lemma: label starts of equal rank coincide */
        __CPROVER_assume(g_rank[j + 1] <= j + 1 && g_rank[j + 1] <= g_rank[g_n]);                     /* lemma: rank[k] <= k, rank monotone */
        return (char *)p + (j - i);
    }
    __CPROVER_assume(g_rank[g_n] == g_rank[i]);
    return (char *)0;
}

/* the same for memchr(p, '.', n): a dot within the next n bytes of the string, or none there (A4) */
void *memchr(const void *q, int c, size_t n)
{
    const char *p = (const char *)q;
#ifdef SP_LITE
    if (!g_past_cut) __CPROVER_assume(c == '.' && __CPROVER_same_object(p, g_s) && (size_t)(p - g_s) <= g_n);
#endif
    __CPROVER_assert(c == '.' && __CPROVER_same_object(p, g_s), "memchr is used for '.' on the input string only");
    size_t i = (size_t)(p - g_s);
    __CPROVER_assert(i <= g_n && n <= g_n + 1 - i, "SAFETY: memchr range within the string and its terminator");
    size_t lim = (i + n < g_n) ? i + n : g_n;
    if (nondet_bool()) {
        size_t j = nondet_size();
        __CPROVER_assume(i <= j && j < lim && p[j - i] == '.' && g_rank[j] == g_rank[i] && g_rank[j + 1] == g_rank[i] + 1);
        __CPROVER_assume((g_a >= 1 && g_rank[g_a - 1] == g_rank[j]) ==> j == g_a - 1);
        __CPROVER_assume((g_have_b && g_b >= 1 && g_rank[g_b - 1] == g_rank[j]) ==> j == g_b - 1);
        __CPROVER_assume((g_have_b && g_rank[j + 1] == g_rank[g_b]) ==> j + 1 == g_b);
        __CPROVER_assume(g_rank[j + 1] <= j + 1 && g_rank[j + 1] <= g_rank[g_n]);
        return (void *)(p + (j - i));
    }
    __CPROVER_assume(g_rank[lim] == g_rank[i]);
    return (void *)0;
}

#ifdef JOB_A
#define EAV_VERIF_AT_is_special_domain_nodot \
    { __CPROVER_assert(g_rank[g_n] == 0, "CUT: the no-dot shortcut is taken only if the string has no dot"); __CPROVER_assume(0); }
#define EAV_VERIF_AT_is_special_domain_cut \
    { __CPROVER_assume(((cp == start || cp[-1] == '.') && g_have_b && g_rank[cp - start] == g_rank[g_b]) ==> (size_t)(cp - start) == g_b); /* lemma: label starts of equal rank coincide */ \
      __CPROVER_assert(g_rank[g_n] >= 1 && g_have_b && (size_t)(cp - start) == g_b, "CUT: with at least one dot, cp is the start of the second-to-last label"); __CPROVER_assume(0); }
#elif defined(SP_LITE)
/* the loops were havocked: install the values job A proved they compute */
#define EAV_VERIF_AT_is_special_domain_nodot { __CPROVER_assume(g_rank[g_n] == 0 && g_a == 0); g_past_cut = 1; }
#define EAV_VERIF_AT_is_special_domain_cut   { __CPROVER_assume(g_rank[g_n] >= 1 && g_have_b); cp = start + g_b; g_past_cut = 1; }
#else
#define EAV_VERIF_AT_is_special_domain_nodot { __CPROVER_assume(g_rank[g_n] == 0 && g_a == 0); }   /* proved in job A */
#define EAV_VERIF_AT_is_special_domain_cut   { __CPROVER_assume(g_have_b && (size_t)(cp - start) == g_b); } /* proved in job A */
#endif

#ifdef SP_LITE
/* verdict-only variant (quick tier): the loops are cut off by contracts that say nothing (everything they assign is
   havocked; the cut facts proved in job A are assumed afterwards); memory safety of the loops is job A's / full job B's business */
#define EAV_VERIF_LOOP_is_special_domain_count __CPROVER_assigns(cp, ch, count) __CPROVER_loop_invariant(1)
#define EAV_VERIF_LOOP_is_special_domain_skip  __CPROVER_assigns(cp, ch, count) __CPROVER_loop_invariant(1)
#else
#define EAV_VERIF_LOOP_is_special_domain_count \
    __CPROVER_assigns(cp, ch, count) \
    __CPROVER_loop_invariant(__CPROVER_same_object(cp, start) && __CPROVER_POINTER_OFFSET(cp) >= __CPROVER_POINTER_OFFSET(start) && __CPROVER_POINTER_OFFSET(cp) <= __CPROVER_POINTER_OFFSET(end) \
        && count >= 0 && (size_t)count == g_rank[cp - start] && (size_t)count <= (size_t)(cp - start)) \
    __CPROVER_decreases(end - cp)
#define EAV_VERIF_LOOP_is_special_domain_skip \
    __CPROVER_assigns(cp, ch, count) \
    __CPROVER_loop_invariant(__CPROVER_same_object(cp, start) && __CPROVER_POINTER_OFFSET(cp) >= __CPROVER_POINTER_OFFSET(start) && __CPROVER_POINTER_OFFSET(cp) <= __CPROVER_POINTER_OFFSET(end) \
        && count >= 1 && g_rank[cp - start] + (size_t)count == g_rank[g_n] && (cp == start || cp[-1] == '.')) \
    __CPROVER_decreases(count)
#endif

#ifdef JOB_B
#include <string.h>
#include <strings.h>
/* recording memcpy: which range is copied where (content is never read by an obligation) */
const void *g_cp_src; size_t g_cp_n; void *g_cp_dst; int g_cp_calls;
int g_last_res, g_last_ex, g_prev_example;   /* oracle answers (universally quantified): index of the reserved / example word the last label equals, -1 if none */
#endif

#define PRE_COMMON \
__CPROVER_requires(g_n >= 1 && g_n <= 253 && __CPROVER_is_fresh(start, g_n + 1) && __CPROVER_pointer_in_range_dfcc(start, end, start + g_n) && end == start + g_n && g_s == start && start[g_n] == 0 && start[g_n - 1] != '.') \
__CPROVER_requires(__CPROVER_is_fresh(g_rank, (g_n + 1) * sizeof(size_t)) && g_rank[0] == 0 && g_rank[g_n] <= g_n) \
/* witnesses: a = start of last label, b = start of second-to-last label */ \
__CPROVER_requires(g_a <= g_n && g_rank[g_a] == g_rank[g_n] && (g_a == 0 ? g_rank[g_n] == 0 : (start[g_a - 1] == '.' && g_rank[g_a - 1] + 1 == g_rank[g_a]))) \
__CPROVER_requires(g_have_b == (g_a != 0)) \
__CPROVER_requires(g_have_b ==> (g_b < g_a && g_rank[g_b] + 1 == g_rank[g_a] && (g_b == 0 ? g_rank[g_b] == 0 : (start[g_b - 1] == '.' && g_rank[g_b - 1] + 1 == g_rank[g_b]))))

#ifdef JOB_A
int is_special_domain(const char *start, const char *end)
PRE_COMMON
__CPROVER_assigns()
__CPROVER_ensures(1)
;
#include <src/is_special_domain.c>
#else
/* the real file first: its static tables reserved[] / example[] are named by the oracle below */
int is_special_domain(const char *start, const char *end);
#include <src/is_special_domain.c>

void *memcpy(void *dst, const void *src, size_t n)
{
    __CPROVER_assert(n <= 9, "SAFETY: a label copy is at most 9 bytes (label[64])");
    g_cp_src = src; g_cp_n = n; g_cp_dst = dst; g_cp_calls++;
    return dst;
}
#define LAST_COPIED(a) (g_a == 0 && g_cp_calls == 0 ? ((a) == g_s) : ((a) == g_cp_dst && g_cp_src == g_s + g_a && g_cp_n == g_n - g_a && ((const char *)(a))[g_cp_n] == 0))
#define RES_CASE(k) if (b == reserved[k].domain) { \
        __CPROVER_assert(n == reserved[k].length, "reserved word compared over its own length (strlen + 1: whole label)"); \
        __CPROVER_assert(LAST_COPIED(a), "first operand is the NUL-terminated copy of exactly the last label"); \
        return g_last_res == k ? 0 : 1; }
#define EX_CASE(k) if (b == example[k].domain) { \
        __CPROVER_assert(n == example[k].length, "com/net/org compared over its own length (strlen + 1: whole label)"); \
        __CPROVER_assert(LAST_COPIED(a), "first operand is the NUL-terminated copy of exactly the last label"); \
        return g_last_ex == k ? 0 : 1; }
/* A6 oracle */
int strncasecmp(const char *a, const char *b, size_t n)
{
    RES_CASE(0) RES_CASE(1) RES_CASE(2) RES_CASE(3) RES_CASE(4)
    EX_CASE(0) EX_CASE(1) EX_CASE(2)
    __CPROVER_assert(n == 8 && a[0]=='e' && a[1]=='x' && a[2]=='a' && a[3]=='m' && a[4]=='p' && a[5]=='l' && a[6]=='e' && a[7]==0, "the literal \"example\" is compared over 8 bytes (whole label)");
    __CPROVER_assert(b == g_cp_dst && g_have_b && g_cp_src == g_s + g_b && g_cp_n == g_a - 1 - g_b && b[g_cp_n] == 0, "second operand is the NUL-terminated copy of exactly the second-to-last label");
    return g_prev_example ? 0 : 1;
}

int is_special_domain(const char *start, const char *end)
PRE_COMMON
__CPROVER_requires(g_past_cut == 0)
__CPROVER_requires(g_cp_calls == 0 && g_last_res >= -1 && g_last_res < 5 && g_last_ex >= -1 && g_last_ex < 3)
/* an oracle answer "equal" is only possible for a label of the word's length (A6 lemma: equality over strlen+1 bytes) */
__CPROVER_requires(g_last_res >= 0 ==> g_n - g_a + 1 == reserved[g_last_res].length)
__CPROVER_requires(g_last_ex >= 0 ==> g_n - g_a == 3)
__CPROVER_requires(g_prev_example ==> (g_have_b && g_a - 1 - g_b == 7))
__CPROVER_assigns(g_cp_src, g_cp_n, g_cp_dst, g_cp_calls, g_past_cut)
/* C09: special iff the last label is a reserved word, or the last two labels are example.<com|net|org> */
__CPROVER_ensures((__CPROVER_return_value != 0) == (g_last_res >= 0 || (g_prev_example && g_last_ex >= 0)))
__CPROVER_ensures(__CPROVER_return_value == 0 || __CPROVER_return_value == 1)
;
#endif

#ifdef JOB_B
/* the reserved words themselves, from the property text (RFC 2606 / 6761 / 7686): the oracle above trusts the tables'
   length fields, so the tables are checked here, by constant evaluation, against the literal list */
#define EQC(a, b, n, i) ((i) > (n) || (a)[i] == (b)[i])
#define EQ10(a, b, n) (EQC(a,b,n,0) && EQC(a,b,n,1) && EQC(a,b,n,2) && EQC(a,b,n,3) && EQC(a,b,n,4) && EQC(a,b,n,5) && EQC(a,b,n,6) && EQC(a,b,n,7) && EQC(a,b,n,8) && EQC(a,b,n,9))
#define TAB_ROW(tab, k, w, n) __CPROVER_assert(sizeof(tab) / sizeof(tab[0]) > (k) && sizeof(w) == (n) + 1 && tab[k].length == (n) + 1 && EQ10(tab[k].domain, w, n), \
        "reserved-word table row is \"" w "\" with length strlen+1 (whole-label comparison)")
static void check_tables(void)
{
    __CPROVER_assert(sizeof(reserved) / sizeof(reserved[0]) == 5 && sizeof(example) / sizeof(example[0]) == 3, "five reserved last labels, three example.<tld> labels");
    TAB_ROW(reserved, 0, "test", 4); TAB_ROW(reserved, 1, "example", 7); TAB_ROW(reserved, 2, "invalid", 7);
    TAB_ROW(reserved, 3, "localhost", 9); TAB_ROW(reserved, 4, "onion", 5);
    TAB_ROW(example, 0, "com", 3); TAB_ROW(example, 1, "net", 3); TAB_ROW(example, 2, "org", 3);
}
#endif

void harness(void)
{
    const char *s, *e;
#ifdef JOB_B
    check_tables();
#endif
    int r = is_special_domain(s, e);
#ifdef JOB_B
    __CPROVER_assert(!(r == 1 && g_prev_example && g_last_ex == 2), "REACH: example.org");
    __CPROVER_assert(!(r == 1 && g_last_res == 3 && g_have_b && g_a - 1 - g_b == 7), "REACH: localhost after a 7-byte label");
    __CPROVER_assert(!(r == 1 && g_a == 0), "REACH: bare single-label form");
    __CPROVER_assert(!(r == 0 && g_have_b), "REACH: not special");
#endif
}
