/* job: is_<mode>_email (src/is_{822,5321,5322}_email.c) proved against the composition contract of
   contracts/email.h; every callee replaced by its recording contract.  -DEMAIL_MODE=822|5321|5322 */
#include <models_common.h>
#include <email.h>

#define PASTE3(a,b,c) a##b##c
#define FN(mode) PASTE3(is_, mode, _email)
#define EMAIL_FN FN(EMAIL_MODE)

eav_result_t *EMAIL_FN(const char *email, size_t length, bool tld_check)
EMAIL_CONTRACT_ASCII
;

#if EMAIL_MODE == 822
#include <src/is_822_email.c>
#elif EMAIL_MODE == 5321
#include <src/is_5321_email.c>
#else
#include <src/is_5322_email.c>
#endif

void harness(void)
{
    const char *e; size_t n; bool t;
    eav_result_t *r = EMAIL_FN(e, n, t);
#ifdef PATH_LITERAL
    __CPROVER_assert(!(r->rc == 0 && r->is_ipv4), "REACH: IPv4 literal accepted");
    __CPROVER_assert(!(r->rc == 0 && r->is_ipv6 && g_tag_is_ipv6 && rec_ip6_calls == 1), "REACH: tagged IPv6 literal accepted");
    __CPROVER_assert(!(r->rc == 0 && r->is_ipv6 && rec_ip_calls == 1), "REACH: untagged IPv6 literal accepted");
    __CPROVER_assert(!(r->rc == -EEAV_IPADDR_BRACKET_UNPAIR), "REACH: unpaired bracket");
#else
    __CPROVER_assert(!(r->rc == TLD_TYPE_GENERIC && r->is_domain), "REACH: host name classified");
    __CPROVER_assert(!(r->rc == -EEAV_DOMAIN_NOT_FQDN), "REACH: not FQDN");
    __CPROVER_assert(!(r->rc == -EEAV_LPART_TOO_LONG), "REACH: local part too long");
    __CPROVER_assert(!(r->rc == -EEAV_EMAIL_EMPTY), "REACH: empty address");
#endif
}
