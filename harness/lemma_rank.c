/* job: the facts about the dot-rank function that the strchr model of is_special_domain assumes (A4).
   rank is *defined* by rank[0] == 0 and the step axiom rank[k+1] == rank[k] + (s[k] == '.').
   -DPART_MONO: by induction (loop contract) rank is monotone and grows by at most one per byte, for arbitrary i <= j <= n.
   -DPART_INST: loop-free: the four instance shapes assumed in the model follow from monotonicity + the step axiom. */
#include <stddef.h>
size_t nondet_size(void);
size_t g_n;
#define DOT(k) (s[k] == '.' ? (size_t)1 : (size_t)0)
#define STEP_AXIOM(k) __CPROVER_assume(rank[(k) + 1] == rank[k] + DOT(k))
/* monotonicity instance, proved in PART_MONO for arbitrary i <= j */
#define MONO(i, j) __CPROVER_assume(!((i) <= (j)) || (rank[i] <= rank[j] && rank[j] - rank[i] <= (j) - (i)))

void harness(void)
{
    size_t n = nondet_size(); __CPROVER_assume(n >= 1 && n <= 253);
    char *s = __CPROVER_allocate(n + 1, 0);
    size_t *rank = __CPROVER_allocate((n + 1) * sizeof(size_t), 0);
    __CPROVER_assume(rank[0] == 0);
    size_t i = nondet_size(), j = nondet_size();
    __CPROVER_assume(i <= j && j <= n);
    __CPROVER_assume(i == 0 || rank[i] <= i);   /* the case i == 0 of this very lemma (proved without this assumption) */
#ifdef PART_MONO
    size_t k = i;
    while (k < j)
    __CPROVER_assigns(k)
    __CPROVER_loop_invariant(i <= k && k <= j && rank[i] <= rank[k] && rank[k] - rank[i] <= k - i)
    __CPROVER_decreases(j - k)
    {
        STEP_AXIOM(k);
        k++;
    }
    __CPROVER_assert(rank[i] <= rank[j] && rank[j] - rank[i] <= j - i, "LEMMA: rank is monotone and grows by at most one per byte");
    __CPROVER_assert(!(i == 0) || rank[j] <= j, "LEMMA: rank[k] <= k");
    __CPROVER_assert(!(j == n && i + 5 < j), "REACH: a range of more than five bytes");
#else
    /* i: the position strchr was called on; j: the dot it returns; a, b: label starts as in the harness */
    size_t a = nondet_size(), b = nondet_size(); int have_b = (a != 0);
    __CPROVER_assume(j < n && s[j] == '.');
    STEP_AXIOM(j);
    __CPROVER_assume(a <= n && (a == 0 || (s[a - 1] == '.' && rank[a - 1] + 1 == rank[a])));
    __CPROVER_assume(!have_b || (b < a && (b == 0 || (s[b - 1] == '.' && rank[b - 1] + 1 == rank[b]))));
    /* applications of the monotonicity lemma to the pairs the argument needs */
    if (a >= 1) { MONO(j + 1, a - 1); MONO(a, j); MONO(a - 1, j); MONO(j, a - 1); }
    if (have_b && b >= 1) { MONO(j + 1, b - 1); MONO(b, j); MONO(b - 1, j); MONO(j, b - 1); }
    if (have_b) { MONO(j + 1, b); MONO(b, j + 1); MONO(b, j); }
    MONO(0, j + 1); MONO(j + 1, n);
    __CPROVER_assert(!(a >= 1 && rank[a - 1] == rank[j]) || j == a - 1, "INSTANCE 1: dots of equal rank coincide (last label)");
    __CPROVER_assert(!(have_b && b >= 1 && rank[b - 1] == rank[j]) || j == b - 1, "INSTANCE 2: dots of equal rank coincide (second-to-last label)");
    __CPROVER_assert(!(have_b && rank[j + 1] == rank[b]) || j + 1 == b, "INSTANCE 3: label starts of equal rank coincide");
    __CPROVER_assert(rank[j + 1] <= j + 1 && rank[j + 1] <= rank[n], "INSTANCE 4: rank[k] <= k, rank monotone");
    __CPROVER_assert(!(have_b && b >= 1 && j + 1 == b), "REACH: instance 3 non-trivial");
#endif
}
