/* job: parse_file (bin/main.c) as a whole, BOUNDED -- property C20, the parts that the extraction of the loop body
   (job cli_parse_line) drops: the prologue (fopen and its failure path), the getline loop itself with a buffer that
   getline frees and re-allocates on every call, and the epilogue (free, fclose, summary line).
   Bound: files of at most CLI_LINES lines of at most CLI_BYTES bytes each (terminator included); loops are unwound with
   unwinding assertions.  This is a bounded stand-in and is never counted as proved; the unbounded statements about one
   line are in job cli_parse_line, the unbounded ones about sanitize_utf8 in job cli_sanitize.
   No contracts here (plain CBMC, real malloc/free): the library calls and sanitize_utf8 are stubs that check what they
   are given. */
#include <models_common.h>
#include <stdio.h>
#include <stdlib.h>
#include <string.h>
#include <sys/types.h>
#include <eav.h>

#ifndef CLI_LINES
#define CLI_LINES 3
#endif
#ifndef CLI_BYTES
#define CLI_BYTES 4
#endif

unsigned long g_total, g_remaining;
char *g_line; ssize_t g_r; size_t g_nul;
int g_file_open, g_opened, g_live;          /* g_live: getline buffers allocated and not yet released */
size_t g_end, g_fn, g_off, g_explen; int g_first, g_lastb;
enum { NONE, K_SANITIZE, K_ERRSTR };
int g_last_call, g_last_kind;
unsigned long g_pass, g_fail, g_msg, g_other, g_lines, g_comments, g_summary;
const char *rec_email; size_t rec_len; int rec_verdict, rec_calls;
const char *g_san_ret;

static FILE g_file_obj;
const char *g_paths[4]; int g_npaths;       /* the paths handed to fopen, in order */
FILE *fopen(const char *path, const char *mode) { if (g_npaths < 4) g_paths[g_npaths] = path; g_npaths++; if (nondet_bool()) return (FILE *)0; g_file_open++; g_opened = 1; return &g_file_obj; }
int fclose(FILE *f) { __CPROVER_assert(g_file_open == 1 && f == &g_file_obj, "fclose of the open file, once"); g_file_open--; return 0; }
char *strerror(int e) { return "model error text"; }

/* A8: getline as glibc implements it (POSIX: "if *lineptr is a null pointer or the object is of insufficient size, an
   object shall be allocated as if by malloc() or reallocated as if by realloc()"): EOF, or
     - *lineptr == NULL or *n == 0: a fresh buffer is allocated and the old one, if any, is NOT released (glibc's getdelim
       takes *n == 0 to mean "no buffer");
     - otherwise the buffer is re-allocated (old one released, new one handed out: the strictest legal behaviour for
       the caller's pointers);
   the new buffer holds 1..CLI_BYTES arbitrary bytes and a terminating NUL, *n is its capacity. */
ssize_t getline(char **lineptr, size_t *n, FILE *stream)
{
    __CPROVER_assert(g_file_open == 1 && stream == &g_file_obj, "getline is called on the open file");
    if (g_remaining == 0) return -1;
    g_remaining--;
    size_t r = nondet_size();
    __CPROVER_assume(r >= 1 && r <= CLI_BYTES);
    if (*lineptr != NULL && *n != 0) { free(*lineptr); g_live--; }
    char *b = malloc(CLI_BYTES + 1); __CPROVER_assume(b != NULL); g_live++;     /* constant capacity: no array theory needed */
    b[r] = 0;
    size_t z = 0; while (b[z] != 0) z++;                 /* the first NUL of the line as read, exactly */
    *lineptr = b; *n = CLI_BYTES + 1; g_line = b; g_r = (ssize_t)r; g_nul = z;
    /* the line as read, before the code touches it */
    int lb1 = (int)(unsigned char)b[r - 1], lb2 = r >= 2 ? (int)(unsigned char)b[r - 2] : -1;
    g_first = (int)(unsigned char)b[0];
    g_end = (lb2 == '\r' && lb1 == '\n') ? r - 2 : (lb1 == '\n') ? r - 1 : r;
    g_fn = g_nul < g_end ? g_nul : g_end;
    g_off = (g_first == ' ') ? 1 : 0;
    g_lastb = (g_fn - g_off > 0) ? (int)(unsigned char)b[g_fn - 1] : -1;
    g_explen = (g_lastb == ' ' || g_lastb == '\t') ? g_fn - g_off - 1 : g_fn - g_off;
    g_lines++; rec_calls = 0; g_last_kind = 0; g_last_call = NONE;
    if (g_first == '#') g_comments++;
    return (ssize_t)r;
}
/* the program releases the last buffer itself */
void model_free(void *p) { if (p != NULL && p == (void *)g_line) g_live--; free(p); }

/* exact strlen (the buffers are tiny here): the loop is unwound with the others */
size_t strlen(const char *s)
{
    __CPROVER_assert(s == g_line + g_off, "strlen is applied to the line after at most one leading space");
    size_t k = 0;
    while (s[k] != 0) k++;
    return k;
}

#define FIRST_ARG_(a, ...) a
#define fprintf(f, fmt, ...) model_fprintf(f, fmt, (const void *)(FIRST_ARG_(__VA_ARGS__, 0)))
int model_fprintf(FILE *f, const char *fmt, const void *arg)
{
    char f0 = fmt[0], f1 = fmt[1];
    if (f0 == 'P' && f1 == 'A') {
        __CPROVER_assert(f == stdout && rec_calls == 1 && rec_verdict != 0 && g_last_call == K_SANITIZE && g_last_kind == 0 && arg == (const void *)g_san_ret, "PASS record: once, after eav_is_email said yes, with the sanitized trimmed line");
        g_pass++; g_last_kind = 1; g_last_call = NONE;
    } else if (f0 == 'F' && f1 == 'A') {
        __CPROVER_assert(f == stdout && rec_calls == 1 && rec_verdict == 0 && g_last_call == K_SANITIZE && g_last_kind == 0 && arg == (const void *)g_san_ret, "FAIL record: once, after eav_is_email said no, with the sanitized trimmed line");
        g_fail++; g_last_kind = 2; g_last_call = NONE;
    } else if (f0 == ' ') {
        __CPROVER_assert(f == stdout && g_last_kind == 2 && g_last_call == K_ERRSTR, "message line: right after the FAIL record, with eav_errstr's text");
        g_msg++; g_last_kind = 3; g_last_call = NONE;
    } else if (f0 == '%') {
        g_summary++;
    } else {
        g_other++;
    }
    return 0;
}

int eav_is_email(eav_t *eav, const char *email, size_t length)
{
    __CPROVER_assert(rec_calls == 0 && g_first != '#' && email == g_line + g_off && length == g_explen && email[length] == 0, "the library is asked, once per line, about exactly the trimmed line");
    rec_email = email; rec_len = length; rec_calls++; rec_verdict = nondet_bool();
    return rec_verdict;
}
const char *eav_errstr(eav_t *eav) { __CPROVER_assert(g_last_kind == 2 || g_npaths == 0, "eav_errstr only after a FAIL record (or, in main, to report a failed set-up before any file is touched)"); g_last_call = K_ERRSTR; return "model message"; }

/* ---- main(): the library object is initialised, set up with the defaults untouched, used for every file, released */
int g_inited, g_setup, g_freed; eav_t *g_eav;
void eav_init(eav_t *eav) { __CPROVER_assert(!g_inited, "eav_init once"); g_inited = 1; g_eav = eav; eav->rfc = EAV_RFC_6531; eav->allow_tld = 0x2a; eav->tld_check = true; eav->utf8 = false; eav->errcode = 0; }
int eav_setup(eav_t *eav) { __CPROVER_assert(g_inited && !g_setup && eav == g_eav && eav->rfc == EAV_RFC_6531 && eav->allow_tld == 0x2a && eav->tld_check == true, "eav_setup right after eav_init, on the same object, options as eav_init left them (default settings)"); g_setup = 1; return nondet_bool() ? EEAV_NO_ERROR : EEAV_IDN_ERROR; }
void eav_free(eav_t *eav) { __CPROVER_assert(g_setup && !g_freed && eav == g_eav && g_file_open == 0, "eav_free once, at the end"); g_freed = 1; }
char *setlocale(int c, const char *l) { return (char *)0; }
int strcmp(const char *a, const char *b) { return nondet_bool() ? 0 : 1; }   /* both outcomes of the -h / --help test */

/* bin/main.h first (its include guard makes the #include in main.c a no-op): the real sanitize_utf8, then a wrapper
   through which parse_file's calls go: it checks the arguments, calls the real function and records the result */
#include <bin/main.h>
#define SANITIZED_OK ((sanitized == NULL && sanitized_size == 0) || (sanitized_size >= 1 && __CPROVER_rw_ok(sanitized, sanitized_size)))
const char *model_sanitize(const char *text, size_t length)
{
    __CPROVER_assert(rec_calls == 1 && text == rec_email && length == rec_len && text[length] == 0, "the echoed text is exactly the text that was validated");
    /* stand-in for the real function (which has its own unbounded proof, job cli_sanitize; its realloc of a symbolic size is too
       heavy here).  It keeps the real function's ownership protocol: the precondition of its contract - the file-scope buffer is
       NULL/0 or a live block of its recorded size - is checked, the buffer is allocated once and reused. */
    __CPROVER_assert(SANITIZED_OK, "precondition of sanitize_utf8: its file-scope buffer is NULL/0 or a live block of the recorded size");
    if (sanitized == NULL) { sanitized = malloc(4 * CLI_BYTES + 1); __CPROVER_assume(sanitized != NULL); sanitized_size = 4 * CLI_BYTES + 1; }
    sanitized[0] = 0;
    g_san_ret = sanitized;
    g_last_call = K_SANITIZE;
    return g_san_ret;
}
#define sanitize_utf8(t, n) model_sanitize(t, n)
#define free(p) model_free(p)
#define main eav_tool_main
#include <bin/main.c>
#undef main
#undef free
#undef sanitize_utf8

#ifdef CLI_MAIN
/* entry for job cli_main_bounded: the whole program with at most 2 file arguments */
void harness(void)
{
    int argc = nondet_int(); __CPROVER_assume(argc >= 0 && argc <= 3);
    char a0[2], a1[2], a2[2]; char *argv[4] = { a0, a1, a2, 0 };
    g_total = nondet_size(); __CPROVER_assume(g_total <= CLI_LINES); g_remaining = g_total;
    int rc = eav_tool_main(argc, argv);
    __CPROVER_assert(rc == 0 || rc == 1 || rc == 2, "exit status 0, 1 (usage) or 2 (set-up failed)");
    __CPROVER_assert(rc != 0 || (g_inited && g_setup && g_freed && g_npaths == argc - 1), "normal end: library initialised, set up, released; one parse_file per file argument");
    __CPROVER_assert(rc != 0 || argc < 3 || (g_paths[0] == a2 && g_paths[1] == a1), "the files are processed, each once (last argument first)");
    __CPROVER_assert(rc == 0 || g_npaths == 0, "usage / set-up failure: no file is touched");
    __CPROVER_assert(g_file_open == 0 && g_live == 0, "nothing left open, every getline buffer released");
    __CPROVER_assert(SANITIZED_OK, "the buffer owned by sanitize_utf8 is still NULL/0 or a live block");
    __CPROVER_assert(!(rc == 0 && argc == 3), "REACH: two files processed");
    __CPROVER_assert(!(rc == 2), "REACH: set-up failure");
}
#else
void harness(void)
{
    const char *f; eav_t *e;
    g_total = nondet_size(); __CPROVER_assume(g_total <= CLI_LINES); g_remaining = g_total;
    parse_file(f, e);
    __CPROVER_assert(g_file_open == 0, "the file is closed again");
    __CPROVER_assert(g_live == 0, "every getline buffer has been released");
    __CPROVER_assert(SANITIZED_OK, "the buffer owned by sanitize_utf8 is still NULL/0 or a live block (its precondition for the next file)");
    __CPROVER_assert(!g_opened || (g_remaining == 0 && g_lines == g_total && g_pass + g_fail == g_lines - g_comments && g_msg == g_fail && g_summary == 1), "every line read; one PASS/FAIL record per non-comment line; every FAIL followed by its message; one summary line");
    __CPROVER_assert(!(g_opened && g_total == 3 && g_comments == 1 && g_fail == 1 && g_pass == 1), "REACH: a file with a comment, a passing and a failing line");
    __CPROVER_assert(!(!g_opened), "REACH: file cannot be opened");
}
#endif
