/* job: is_ipaddr (src/is_ipv4_ipv6.c): dispatch on the presence of ':' (C05). */
#include <models_common.h>
#include <scan_common.h>

long g_first_colon;   /* index of the first ':' at or after start, -1 if none (A3) */
int rec_ip4_calls, rec_ip4_rc, rec_ip6_calls, rec_ip6_rc;
const char *rec_ip4_start, *rec_ip4_end, *rec_ip6_start, *rec_ip6_end;
const char *g_start;

char *strchr(const char *s, int c)
{
    __CPROVER_assert(s == g_start && c == ':', "strchr looks for ':' from the start of the address");
    return g_first_colon < 0 ? (char *)0 : (char *)s + g_first_colon;
}
#define REC(P) __CPROVER_assigns(rec_##P##_calls, rec_##P##_rc, rec_##P##_start, rec_##P##_end) \
    __CPROVER_ensures(rec_##P##_calls == __CPROVER_old(rec_##P##_calls) + 1 && rec_##P##_start == start && rec_##P##_end == end && rec_##P##_rc == __CPROVER_return_value && (__CPROVER_return_value == 0 || __CPROVER_return_value == 1))
int is_ipv4(const char *start, const char *end) REC(ip4);
int is_ipv6(const char *start, const char *end) REC(ip6);

int is_ipaddr(const char *start, const char *end)
__CPROVER_requires(RANGE_REQ(start, end, MAXLEN) && start[g_len] == ']' && g_start == start)
__CPROVER_requires(g_first_colon >= -1 && g_first_colon < (long)g_len && (g_first_colon >= 0 ==> start[g_first_colon] == ':'))
__CPROVER_requires(rec_ip4_calls == 0 && rec_ip6_calls == 0)
__CPROVER_assigns(rec_ip4_calls, rec_ip4_rc, rec_ip4_start, rec_ip4_end, rec_ip6_calls, rec_ip6_rc, rec_ip6_start, rec_ip6_end)
__CPROVER_ensures(g_first_colon >= 0 ? (rec_ip6_calls == 1 && rec_ip4_calls == 0 && rec_ip6_start == start && rec_ip6_end == end && __CPROVER_return_value == rec_ip6_rc)
                                     : (rec_ip4_calls == 1 && rec_ip6_calls == 0 && rec_ip4_start == start && rec_ip4_end == end && __CPROVER_return_value == rec_ip4_rc))
__CPROVER_ensures(__CPROVER_return_value == 0 || __CPROVER_return_value == 1)
;

#include <src/is_ipv4_ipv6.c>

void harness(void)
{
    const char *s, *e;
    int r = is_ipaddr(s, e);
    __CPROVER_assert(!(r == 1 && rec_ip6_calls == 1), "REACH: IPv6 accepted");
    __CPROVER_assert(!(r == 1 && rec_ip4_calls == 1), "REACH: IPv4 accepted");
}
