/* job: is_tld (src/is_tld.c) over the real table: returns the class of the first entry that compares
   equal to the label, each entry compared with its own length (terminator included), else TLD_INVALID.
   Loop contract; strncasecmp is an oracle (A6).  C07(a), C06, C15. */
#include <src/auto_tld.c>          /* first: the table's definition must precede every use (one TU) */
#include <models_common.h>
#include <eav.h>
#include <spec_tld.h>
#define NTLD SPEC_NTLD

size_t g_hit;          /* index of the first table entry equal to the label, NTLD if there is none */
size_t g_n;            /* length of the label */
const char *g_start;

/* A6 oracle: by definition of g_hit every entry before it differs, entry g_hit compares equal */
int strncasecmp(const char *a, const char *b, size_t n)
{
    __CPROVER_assert(b == g_start, "the candidate label is compared from its first byte (never a suffix)");
    if (g_hit < NTLD && a == tld_list[g_hit].domain) {
        __CPROVER_assert(n == tld_list[g_hit].length, "the entry is compared over its own length (strlen + 1: terminator included)");
        return 0;
    }
    return 1;
}

int is_tld(const char *start, const char *end)
/* call sites: [start,end) is the text after the last dot of a NUL-terminated domain, so start[g_n] == 0 */
__CPROVER_requires(g_hit <= NTLD && g_n <= 254 && __CPROVER_is_fresh(start, g_n + 1) && __CPROVER_pointer_in_range_dfcc(start, end, start + g_n) && end == start + g_n && start[g_n] == 0 && g_start == start)
__CPROVER_requires(g_n == 0 ==> g_hit == NTLD)   /* no table entry is empty (table job) */
__CPROVER_assigns()
__CPROVER_ensures(g_hit < NTLD ? __CPROVER_return_value == tld_list[g_hit].type : __CPROVER_return_value == -EEAV_TLD_INVALID)
/* C15: 'invalid TLD' only if the label is not in the table */
__CPROVER_ensures((__CPROVER_return_value == -EEAV_TLD_INVALID) == (g_hit == NTLD))
__CPROVER_ensures(__CPROVER_return_value == -EEAV_TLD_INVALID || (__CPROVER_return_value >= TLD_TYPE_NOT_ASSIGNED && __CPROVER_return_value <= TLD_TYPE_RETIRED))
;

#define TLD_IDX (__CPROVER_POINTER_OFFSET(tld) / sizeof(tld_t))
#define EAV_VERIF_LOOP_is_tld \
    __CPROVER_assigns(tld) \
    __CPROVER_loop_invariant(__CPROVER_same_object(tld, tld_list) && __CPROVER_POINTER_OFFSET(tld) % sizeof(tld_t) == 0 && TLD_IDX <= g_hit && TLD_IDX <= NTLD) \
    __CPROVER_decreases(NTLD - TLD_IDX)

#include <src/is_tld.c>

void harness(void)
{
    const char *s, *e;
    int r = is_tld(s, e);
    __CPROVER_assert(tld_list[NTLD].domain == NULL && tld_list[NTLD - 1].domain != NULL, "NTLD (from the CSV) is the number of table rows");
    __CPROVER_assert(!(r == TLD_TYPE_INFRASTRUCTURE), "REACH: the one infrastructure entry found");
    __CPROVER_assert(!(r == -EEAV_TLD_INVALID && g_n > 0), "REACH: unlisted label");
}
