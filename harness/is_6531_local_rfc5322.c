/* job: is_6531_local built with -DRFC6531_FOLLOW_RFC5322 (src/is_6531_local.c, decoder src/utf8_decode.c inlined) -- C17,
   third option: "makes mode 6531 judge pure-ASCII local parts as mode 5322 does", and (every other decision unchanged)
   ill-formed UTF-8 is never accepted.

   Claim of this job: as long as only ASCII characters have been read (ghost g_nonascii == 0) the scanner follows the
   RFC 5322 specification automaton of spec_local.h - the very automaton job is_5322_local is proved against - so on a
   pure-ASCII local part the decision is mode 5322's, in both directions; and on every input an accepting return means
   that the whole input was consumed as a sequence of well-formed UTF-8 characters.  How the option treats quoted
   whitespace and control characters in local parts WITH non-ASCII characters is not specified by this contract
   (DESIGN.md 11.5).

   The whitespace branch of this build decodes one character ahead inside the loop body; the ghost consumes that character
   at the hook EAV_VERIF_AT(is_6531_local_fws).

   Cost note: every textual dereference of the input inside an invariant or contract becomes a separate index of the
   input array and CBMC's array theory adds constraints for every PAIR of indices; the first version of this invariant read
   start[prev] nine times and needed > 20 GB.  The invariant therefore reads the byte at prev once (g_cur == start[prev])
   and states everything else over the ghost g_cur, and the job runs with --refine-arrays (array constraints added on
   demand): 3.5 min / 1.2 GB. */
#include <models_common.h>
#include <scan_common.h>
#include <spec_local.h>
#include <spec_utf8.h>

int g_nonascii;       /* a character > 127 has been read */
int g_b0, g_b1, g_b2, g_b3;
#define WFLEN_B U_WFLEN(g_b0, g_b1, g_b2, g_b3)
#define BYTE_K(s, i, n) (((i) < (n)) ? BYTE_AT((s) + (i)) : -1)

int is_6531_local(const char *start, const char *end)
__CPROVER_requires(RANGE_REQ(start, end, (size_t)0x7ffffff0))
__CPROVER_requires(g_state == L_START && g_pos == 0 && g_cur == -1 && g_nonascii == 0)
__CPROVER_assigns(g_state, g_pos, g_cur, g_nonascii, g_b0, g_b1, g_b2, g_b3)
/* every input: accept => all of it was consumed, one well-formed sequence at a time (asserted at each ghost step) */
__CPROVER_ensures(__CPROVER_return_value == 0 ==> g_pos == g_len)
/* pure ASCII so far: the decision is the 5322 automaton's */
__CPROVER_ensures((__CPROVER_return_value == 0 && !g_nonascii) ==> L_ACC(g_state))
__CPROVER_ensures((__CPROVER_return_value != 0 && !g_nonascii) ==> (g_len == 0 || (__CPROVER_return_value == -EEAV_LPART_INVALID_UTF8 && g_pos < g_len && BYTE_AT(start + g_pos) >= 0x80) || g_state == L_DEAD || (g_pos == g_len && !L_ACC(g_state))))
__CPROVER_ensures((__CPROVER_return_value == -EEAV_LPART_EMPTY) == (g_len == 0))
__CPROVER_ensures(__CPROVER_return_value <= 0 && __CPROVER_return_value > -EEAV_MAX)
;

#define U_OK (u.the_input == start && u.the_length == (int)g_len && u.the_index >= 0 && u.the_index <= u.the_length && \
              u.the_char >= 0 && u.the_char <= u.the_index && u.the_byte >= 0 && u.the_byte <= u.the_index)

#define EAV_VERIF_LOOP_is_6531_local \
    __CPROVER_assigns(ch, prev, quote, qpair, u.the_index, u.the_byte, u.the_char, g_state, g_pos, g_cur, g_nonascii, g_b0, g_b1, g_b2, g_b3) \
    __CPROVER_loop_invariant(U_OK && g_pos == (size_t)u.the_index && (g_nonascii == 0 || g_nonascii == 1) \
        && (quote==0||quote==1) && (qpair==0||qpair==1) && (!quote ==> !qpair) \
        && (u.the_index == 0) == (prev == -1) && prev >= -1 && prev < u.the_index && (quote ==> prev >= 0) \
        && (!g_nonascii ==> ( \
              (prev < 0 ? g_cur == -1 : (g_cur == BYTE_AT(start + prev) && g_cur <= 127 && prev + 1 == u.the_index)) \
           && (!quote ==> g_state == ((g_cur == -1 || g_cur == '.') ? L_START : (g_cur == '"') ? L_QEND : L_ATOM)) \
           && ((quote && qpair) ==> g_state == L_QPAIR) \
           && ((quote && !qpair) ==> (L_IS_DQWS(g_cur) ? (g_state == L_QDQWS || (g_state == L_QPEND && u.the_index == u.the_length)) : g_state == L_QOTHER)) \
           && ((!quote && g_cur == '.') ==> (u.the_index < u.the_length))))) \
    __CPROVER_decreases(u.the_length - u.the_index)

#define GHOST_WF \
    g_b0 = BYTE_K(start, g_pos, g_len); g_b1 = BYTE_K(start, g_pos + 1, g_len); g_b2 = BYTE_K(start, g_pos + 2, g_len); g_b3 = BYTE_K(start, g_pos + 3, g_len); \
    __CPROVER_assert((size_t)u.the_byte == g_pos && u.the_index - u.the_byte == WFLEN_B && WFLEN_B >= 1, "GHOST: decoder consumed exactly one well-formed UTF-8 sequence, contiguous with the previous one");
#define GHOST_CONSUME GHOST_WF \
    if (ch > 127) g_nonascii = 1; \
    g_cur = ch; g_state = SPEC5322_STEP(g_state, (ch > 127 ? 128 : ch)); g_pos = (size_t)u.the_index;
#define EAV_VERIF_STEP_is_6531_local GHOST_CONSUME
/* the whitespace branch has just decoded the character that follows the whitespace: the ghost consumes it too */
#define EAV_VERIF_AT_is_6531_local_fws GHOST_CONSUME

#include <src/is_6531_local.c>


void harness(void)
{
    const char *s, *e;
    int r = is_6531_local(s, e);
    __CPROVER_assert(!(r == 0 && !g_nonascii && g_len >= 6), "REACH: pure-ASCII local part accepted");
    __CPROVER_assert(!(r == -EEAV_LPART_UNQUOTED_FWS && !g_nonascii), "REACH: unquoted whitespace rejected");
    __CPROVER_assert(!(r != 0 && !g_nonascii && g_pos == g_len), "REACH: rejected at the end");
    __CPROVER_assert(!(r == 0 && g_nonascii), "REACH: local part with a non-ASCII character accepted");
}
