/* job: eav_is_email (partial/<backend>/eav.c) proved against the policy / diagnostics contract.
   C08, C13, C15, C19, C06.  Loop-free: complete for all 2^32 masks, all callback results. */
#include <models_common.h>
#include <eav_api.h>
#include <idn_models.h>

int eav_is_email(eav_t *eav, const char *email, size_t length)
/* arbitrary prior history: any object satisfying the invariant, with arbitrary stale errcode / idnmsg */
__CPROVER_requires(__CPROVER_is_fresh(eav, sizeof(*eav)))
__CPROVER_requires(RESULT_OK(eav->result) && g_old_result == eav->result)
__CPROVER_requires(MODE_OK(eav))
__CPROVER_requires(CB_RC_OK(g_rc) && rec_cb_calls == 0 && g_strerror_calls == 0)
__CPROVER_assigns(eav->idnmsg, eav->result, eav->errcode)
__CPROVER_assigns(rec_cb_which, rec_cb_calls, rec_cb_email, rec_cb_len, rec_cb_tld, rec_cb_result, g_strerror_arg, g_strerror_calls)
#ifdef HAVE_IDNKIT
__CPROVER_assigns(rec_cb_ctx, rec_cb_actions)
#endif
__CPROVER_frees(eav->result)
#ifdef EAV_EXTRA
__CPROVER_frees(eav->result != NULL: eav->result->lpart, eav->result->domain)
__CPROVER_assigns(eav->result != NULL: eav->result->lpart, eav->result->domain)
#endif
/* C01/C13: exactly the callback of the confirmed mode runs, once, on (email, length, tld_check) */
__CPROVER_ensures(rec_cb_calls == 1 && rec_cb_email == email && rec_cb_len == length && rec_cb_tld == eav->tld_check && eav->result == rec_cb_result)
__CPROVER_ensures(rec_cb_which == WHICH(eav))
#ifdef HAVE_IDNKIT
__CPROVER_ensures(rec_cb_which == 6531 ==> (rec_cb_ctx == eav->idn && rec_cb_actions == eav->actions))
#endif
/* C13: the previous record is released */
__CPROVER_ensures(g_old_result != NULL ==> __CPROVER_was_freed(g_old_result))
/* C08 */
__CPROVER_ensures(g_rc == 0 ==> (__CPROVER_return_value == 1 && eav->errcode == EEAV_NO_ERROR))
__CPROVER_ensures(g_rc < 0 ==> (__CPROVER_return_value == 0 && eav->errcode == -g_rc))
__CPROVER_ensures(g_rc > 0 ==> (__CPROVER_return_value == ((eav->allow_tld & SPEC_TLD_BIT(g_rc)) != 0) && eav->errcode == (__CPROVER_return_value ? EEAV_NO_ERROR : SPEC_TLD_ERR(g_rc))))
/* C15/C19 */
__CPROVER_ensures(__CPROVER_return_value == (eav->errcode == EEAV_NO_ERROR))
__CPROVER_ensures(eav->errcode >= 0 && eav->errcode < EEAV_MAX)
__CPROVER_ensures(g_rc == -EEAV_IDN_ERROR ? (eav->idnmsg == g_strerror_ret && g_strerror_calls == 1 && g_strerror_arg == g_idn_rc) : (eav->idnmsg == NULL && g_strerror_calls == 0))
;

#if defined(HAVE_LIBIDN2)
#include <partial/idn2/eav.c>
#elif defined(HAVE_LIBIDN)
#include <partial/idn/eav.c>
#else
#include <partial/idnkit/eav.c>
#endif
#include <src/eav.c>

void harness(void)
{
    eav_t *e; const char *s; size_t n;
    int r = eav_is_email(e, s, n);
    __CPROVER_assert(!(r == 1 && g_rc == TLD_TYPE_RETIRED), "REACH: accepted by policy bit");
    __CPROVER_assert(!(r == 0 && g_rc == TLD_TYPE_NOT_ASSIGNED), "REACH: rejected by policy bit");
    __CPROVER_assert(!(g_rc == -EEAV_IDN_ERROR), "REACH: IDN error path");
    __CPROVER_assert(!(g_old_result != NULL && rec_cb_which == 6531), "REACH: utf8 mode with stale result");
}
