/* job: is_6531_local (src/is_6531_local.c, decoder src/utf8_decode.c inlined) == strict UTF-8 + the 6531
   specification automaton over decoded characters, both directions (C03, C12, C15, C17, C06). */
#include <models_common.h>
#include <scan_common.h>
#include <spec_local.h>
#include <spec_utf8.h>
/* src/utf8_decode.c is a second translation unit of this job (its header has no include guard) */

int g_b0, g_b1, g_b2, g_b3;      /* the bytes of the character consumed last */
int g_prevch;                    /* the character before g_cur, -1 if none */
int g_e0, g_e1, g_e2, g_e3;      /* universally quantified bytes for the INVALID_UTF8 postcondition */
#define WFLEN_B U_WFLEN(g_b0, g_b1, g_b2, g_b3)
/* EEAV_LPART_INVALID_UTF8: stating "no well-formed sequence starts at g_pos" here needs four more symbolic reads of the
   input, which made this job run out of memory (> 20 GB).  The postcondition therefore says that the decoder stopped inside
   the input, at the ghost position reached by well-formed sequences only; that the decoder stops exactly where no
   well-formed sequence starts is the contract proved in job utf8_decode_next. */
#define BYTE_K(s, i, n) (((i) < (n)) ? BYTE_AT((s) + (i)) : -1)

#ifdef SAFETY_ONLY
/* C06 variant: memory safety / termination / frame only, independent of the functional specification */
int is_6531_local(const char *start, const char *end)
__CPROVER_requires(RANGE_REQ(start, end, (size_t)0x7ffffff0))
__CPROVER_assigns()
__CPROVER_ensures(__CPROVER_return_value <= 0 && __CPROVER_return_value > -EEAV_MAX)
;
#define EAV_VERIF_LOOP_is_6531_local \
    __CPROVER_assigns(ch, prev, quote, qpair, u.the_index, u.the_byte, u.the_char) \
    __CPROVER_loop_invariant(u.the_input == start && u.the_length == (int)g_len && u.the_index >= 0 && u.the_index <= u.the_length \
        && u.the_char >= 0 && u.the_char <= u.the_index && u.the_byte >= 0 && u.the_byte <= u.the_index \
        && (quote==0||quote==1) && (qpair==0||qpair==1) && (u.the_index == 0) == (prev == -1) && prev >= -1 && prev < u.the_index) \
    __CPROVER_decreases(u.the_length - u.the_index)
#else
int is_6531_local(const char *start, const char *end)
__CPROVER_requires(RANGE_REQ(start, end, (size_t)0x7ffffff0))
__CPROVER_requires(g_state == L_START && g_pos == 0 && g_cur == -1 && g_prevch == -1)
__CPROVER_assigns(g_state, g_pos, g_cur, g_prevch, g_b0, g_b1, g_b2, g_b3)
/* accept => every byte was consumed as part of a well-formed sequence (asserted at every step) and the automaton accepts */
__CPROVER_ensures(__CPROVER_return_value == 0 ==> (g_pos == g_len && L_ACC(g_state)))
/* reject => the specification rejects: ill-formed UTF-8 at g_pos, or the automaton is dead / ends non-accepting */
__CPROVER_ensures(__CPROVER_return_value != 0 ==> (g_len == 0 || (__CPROVER_return_value == -EEAV_LPART_INVALID_UTF8 && g_pos < g_len) || g_state == L_DEAD || (g_pos == g_len && !L_ACC(g_state))))
/* C15 */
__CPROVER_ensures(__CPROVER_return_value == 0 || __CPROVER_return_value == -EEAV_LPART_EMPTY || __CPROVER_return_value == -EEAV_LPART_INVALID_UTF8 ||
        __CPROVER_return_value == -EEAV_LPART_CTRL_CHAR || __CPROVER_return_value == -EEAV_LPART_MISPLACED_QUOTE || __CPROVER_return_value == -EEAV_LPART_SPECIAL ||
        __CPROVER_return_value == -EEAV_LPART_MISPLACED_DOT || __CPROVER_return_value == -EEAV_LPART_TOO_MANY_DOTS || __CPROVER_return_value == -EEAV_LPART_UNQUOTED)
__CPROVER_ensures((__CPROVER_return_value == -EEAV_LPART_EMPTY) == (g_len == 0))
/* ... and the byte there is not ASCII (an ASCII byte always decodes); one symbolic read, affordable */
__CPROVER_ensures((__CPROVER_return_value == -EEAV_LPART_INVALID_UTF8) ==> (g_pos < g_len && BYTE_AT(start + g_pos) >= 0x80))
#ifdef WF_POST
/* ... and no well-formed sequence starts there (Unicode Table 3-7): g_e0..g_e3 are universally quantified, each bound to one
   read of the input */
__CPROVER_ensures((__CPROVER_return_value == -EEAV_LPART_INVALID_UTF8 && g_e0 == BYTE_K(start, g_pos, g_len) && g_e1 == BYTE_K(start, g_pos + 1, g_len) &&
        g_e2 == BYTE_K(start, g_pos + 2, g_len) && g_e3 == BYTE_K(start, g_pos + 3, g_len)) ==> U_WFLEN(g_e0, g_e1, g_e2, g_e3) == 0)
#endif
__CPROVER_ensures(__CPROVER_return_value == -EEAV_LPART_CTRL_CHAR ==> (g_cur >= 0 && (g_cur < 32 || g_cur == 127)))
__CPROVER_ensures(__CPROVER_return_value == -EEAV_LPART_TOO_MANY_DOTS ==> (g_cur == '.' && g_prevch == '.' && g_pos >= 2))
__CPROVER_ensures(__CPROVER_return_value == -EEAV_LPART_MISPLACED_DOT ==> (g_cur == '.' && (g_prevch == -1 || g_pos == g_len)))
__CPROVER_ensures(__CPROVER_return_value == -EEAV_LPART_SPECIAL ==> (g_state == L_DEAD && ((g_cur <= 127 && ((L_IS_SPECIAL(g_cur) && g_cur != '"' && g_cur != '.') || g_cur == ' ' || L_IS_RFC20_CHAR(g_cur))) || g_cur > 127)))
__CPROVER_ensures(__CPROVER_return_value == -EEAV_LPART_MISPLACED_QUOTE ==> (g_cur == '"' || g_prevch == '"'))
__CPROVER_ensures(__CPROVER_return_value == -EEAV_LPART_UNQUOTED ==> (g_pos == g_len && (g_state == L_QTEXT || g_state == L_QPAIR)))
;

#define U_OK (u.the_input == start && u.the_length == (int)g_len && u.the_index >= 0 && u.the_index <= u.the_length && \
              u.the_char >= 0 && u.the_char <= u.the_index && u.the_byte >= 0 && u.the_byte <= u.the_index)

#define EAV_VERIF_LOOP_is_6531_local \
    __CPROVER_assigns(ch, prev, quote, qpair, u.the_index, u.the_byte, u.the_char, g_state, g_pos, g_cur, g_prevch, g_b0, g_b1, g_b2, g_b3) \
    __CPROVER_loop_invariant(U_OK && g_pos == (size_t)u.the_index \
        && (quote==0||quote==1) && (qpair==0||qpair==1) && (!quote ==> !qpair) \
        && (u.the_index == 0) == (prev == -1) && prev >= -1 && prev < u.the_index \
        && (prev >= 0 ==> (((g_cur == '.') == (start[prev] == '.')) && ((g_cur == '"') == (start[prev] == '"')))) && (prev < 0 ==> g_cur == -1) \
        && g_state == (quote ? (qpair ? L_QPAIR : L_QTEXT) : (prev < 0 || start[prev] == '.') ? L_START : (start[prev] == '"') ? L_QEND : L_ATOM) \
        && ((!quote && prev >= 0 && start[prev] == '.') ==> (prev + 1 == u.the_index && u.the_index < u.the_length))) \
    __CPROVER_decreases(u.the_length - u.the_index)

/* ghost step, at the top of the body: the decoder has just returned the character ch >= 0 */
#define EAV_VERIF_STEP_is_6531_local \
    g_b0 = BYTE_K(start, g_pos, g_len); g_b1 = BYTE_K(start, g_pos + 1, g_len); g_b2 = BYTE_K(start, g_pos + 2, g_len); g_b3 = BYTE_K(start, g_pos + 3, g_len); \
    __CPROVER_assert((size_t)u.the_byte == g_pos && u.the_index - u.the_byte == WFLEN_B && WFLEN_B >= 1, "GHOST: decoder consumed exactly one well-formed UTF-8 sequence, contiguous with the previous one"); \
    __CPROVER_assert(ch == U_CP(g_b0, g_b1, g_b2, g_b3), "GHOST: decoded character is the sequence's code point"); \
    g_prevch = g_cur; g_cur = ch; g_state = SPEC6531_STEP(g_state, g_cur); g_pos = (size_t)u.the_index;

#endif

#include <src/is_6531_local.c>

void harness(void)
{
    const char *s, *e;
    int r = is_6531_local(s, e);
#ifndef SAFETY_ONLY
    __CPROVER_assert(!(r == 0 && g_len >= 6 && g_cur > 0xFFFF), "REACH: accepting exit after a 4-byte character");
    __CPROVER_assert(!(r == -EEAV_LPART_INVALID_UTF8), "REACH: invalid UTF-8");
    __CPROVER_assert(!(r == -EEAV_LPART_UNQUOTED), "REACH: open quote");
#else
    __CPROVER_assert(r > 0, "REACH: returns");
#endif
}
