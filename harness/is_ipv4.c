/* job: is_ipv4 (src/is_ipv4_ipv6.c) against the IPv4 specification automaton (C05, C06). */
#include <models_common.h>
#include <scan_common.h>
#include <spec_ip.h>

int q_ph, q_cnt, q_val;     /* ghost automaton */
int g_first_nz;             /* the first octet's value is not 0 (known once its dot has been read) */
int g_strspn_calls;
int g_b0;                    /* the first byte of the input (start[0]; ']' for the empty input) */

/* A5: strspn(start, "0.") is used for its truth value only ("is there anything but zeros and dots?");
   the model returns any index within the string, so both outcomes of that test are explored */
size_t strspn(const char *p, const char *set)
{
    size_t k = nondet_size();
    __CPROVER_assume(k <= g_len);
    g_strspn_calls++;
    return k;
}

#ifdef SAFETY_ONLY
/* C06 variant: memory safety / termination / frame only, independent of the functional specification */
int is_ipv4(const char *start, const char *end)
__CPROVER_requires(RANGE_REQ(start, end, (size_t)0x7ffffff0) && start[g_len] == ']')
__CPROVER_requires(g_strspn_calls == 0)
__CPROVER_assigns(g_strspn_calls)
__CPROVER_ensures(__CPROVER_return_value == 0 || __CPROVER_return_value == 1)
;

#define EAV_VERIF_LOOP_is_ipv4 \
    __CPROVER_assigns(cp, ch, in_byte, byte_val, byte_count, g_strspn_calls) \
    __CPROVER_loop_invariant(IN_OBJ(cp, start, end) && (in_byte == 0 || in_byte == 1) && byte_count >= 0 && (size_t)byte_count <= (size_t)(cp - start) && byte_val >= 0 && byte_val <= 255 \
        && g_strspn_calls >= 0 && (size_t)g_strspn_calls <= (size_t)(cp - start)) \
    __CPROVER_decreases(end - cp)

#else
int is_ipv4(const char *start, const char *end)
/* call sites: the closing bracket follows the address */
__CPROVER_requires(RANGE_REQ(start, end, (size_t)0x7ffffff0) && start[g_len] == ']')
__CPROVER_requires(q_ph == Q_START && q_cnt == 0 && q_val == 0 && g_first_nz == 0 && g_pos == 0 && g_cur == -1 && g_la == BYTE_AT(start) && g_strspn_calls == 0 && g_b0 == g_la)
__CPROVER_assigns(q_ph, q_cnt, q_val, g_first_nz, g_pos, g_cur, g_la, g_strspn_calls)
__CPROVER_ensures(__CPROVER_return_value == 0 || __CPROVER_return_value == 1)
/* YES => four decimal octets 0..255 separated by single dots, nothing else */
__CPROVER_ensures(__CPROVER_return_value != 0 ==> (g_pos == g_len ? Q_ACC(q_ph, q_cnt) : g_la == 0))
/* (used by is_ipv6, which hands over the text from the start of the last hex group) */
__CPROVER_ensures(__CPROVER_return_value != 0 ==> (g_len >= 1 && Q_IS_DIGIT(g_b0)))
/* conversely: every such dotted quad whose first octet is not zero is accepted */
__CPROVER_ensures((g_pos == g_len && Q_ACC(q_ph, q_cnt) && g_first_nz) ==> __CPROVER_return_value != 0)
/* NO => the automaton rejects, or the first octet is zero (left open by the property) */
__CPROVER_ensures(__CPROVER_return_value == 0 ==> (q_ph == Q_DEAD || (g_pos == g_len && !Q_ACC(q_ph, q_cnt)) || (g_pos < g_len && (g_la == 0 || Q_NEXT_PH(q_ph, q_cnt, q_val, g_la) == Q_DEAD)) || !g_first_nz))
;

#define EAV_VERIF_LOOP_is_ipv4 \
    __CPROVER_assigns(cp, ch, in_byte, byte_val, byte_count, q_ph, q_cnt, q_val, g_first_nz, g_pos, g_cur, g_la, g_strspn_calls) \
    __CPROVER_loop_invariant(IN_OBJ(cp, start, end) && g_pos == (size_t)(cp - start) && g_la == BYTE_AT(cp) \
        && (in_byte == 0 || in_byte == 1) && byte_count >= 0 && (size_t)byte_count <= g_pos && byte_val >= 0 && byte_val <= 255 \
        && q_val >= 0 && q_val <= 255 && q_cnt >= 0 && q_cnt <= 4 && (q_ph == Q_START || q_ph == Q_DIG || q_ph == Q_DEAD) \
        && (g_first_nz == 0 || g_first_nz == 1) && g_strspn_calls >= 0 && (size_t)g_strspn_calls <= g_pos \
        && (q_ph != Q_DEAD ==> (byte_count == q_cnt && q_cnt <= 4 && in_byte == (q_ph == Q_DIG) && (q_ph == Q_DIG ==> byte_val == q_val) \
                                && ((byte_count == 0) == (cp == start)))) \
        && (cp > start ==> Q_IS_DIGIT(g_b0)) \
        && (q_ph == Q_DEAD ==> (byte_count > 4)) && (q_ph == Q_DIG ==> q_cnt >= 1) && ((cp == start) ==> (q_ph == Q_START && q_cnt == 0 && in_byte == 0)) \
        && ((cp > start && !in_byte) ==> (cp < end && cp[-1] == '.')) \
        && (g_first_nz == 1 ==> (byte_count >= 2 || (byte_count == 1 && !in_byte)))) \
    __CPROVER_decreases(end - cp)

#define EAV_VERIF_STEP_is_ipv4 \
    g_cur = g_la; \
    if (g_cur == '.' && q_ph == Q_DIG && q_cnt == 1 && q_val != 0) g_first_nz = 1; \
    { int ph_ = q_ph, cnt_ = q_cnt, val_ = q_val; \
      q_ph = Q_NEXT_PH(ph_, cnt_, val_, g_cur); q_cnt = Q_NEXT_CNT(ph_, cnt_, g_cur); q_val = Q_NEXT_VAL(ph_, val_, g_cur); } \
    g_pos++; g_la = BYTE_AT(cp + 1);

#endif

#include <src/is_ipv4_ipv6.c>

void harness(void)
{
    const char *s, *e;
    int r = is_ipv4(s, e);
#ifndef SAFETY_ONLY
    __CPROVER_assert(!(r != 0 && g_pos == g_len), "REACH: accept");
    __CPROVER_assert(!(r == 0 && g_pos == g_len && q_cnt == 3), "REACH: reject at the end, three octets");
    __CPROVER_assert(!(r == 0 && q_ph == Q_DEAD && q_cnt == 4), "REACH: reject, fifth octet or overflow");
#else
    __CPROVER_assert(r > 0, "REACH: returns");
#endif
}
