/* job: the shipped table src/auto_tld.c against data/punycode.csv (spec_tld.h, regenerated on every run).
   No symbolic input: CBMC evaluates the finite table exactly (loops fully unwound, no bound involved).
   C11 (table = CSV with the documented class rule, bijection), C07(b) (table invariant used by is_tld). */
#include <stddef.h>
#include <src/auto_tld.c>
#include <spec_tld.h>

static int cmp(const char *a, const char *b)
{
    size_t k = 0;
    while (a[k] && a[k] == b[k]) k++;
    return (int)(unsigned char)a[k] - (int)(unsigned char)b[k];
}

unsigned char seen[SPEC_NTLD];

void harness(void)
{
    __CPROVER_assert(sizeof(tld_list) / sizeof(tld_list[0]) == SPEC_NTLD + 1, "table has as many rows as the CSV (plus the sentinel)");
    __CPROVER_assert(SPEC_CSV_DUPLICATES == 0, "the CSV names no domain twice");
    for (unsigned i = 0; i < SPEC_NTLD; i++) {
        const char *a = tld_list[i].domain;
        __CPROVER_assert(a != NULL, "no premature sentinel");
        unsigned j = 0;
        for (;; j++) {
            __CPROVER_assert(a[j] == 0 || (a[j] >= 'a' && a[j] <= 'z') || (a[j] >= '0' && a[j] <= '9') || a[j] == '-', "entry is a lower-case LDH label (A-label)");
            if (!a[j]) break;
        }
        __CPROVER_assert(j >= 1 && j <= 63, "entry is a label of 1..63 bytes");
        __CPROVER_assert(tld_list[i].length == j + 1, "length == strlen + 1, so a comparison over length bytes includes the terminator: whole label, never a prefix");
        __CPROVER_assert(tld_list[i].type >= TLD_TYPE_NOT_ASSIGNED && tld_list[i].type <= TLD_TYPE_RETIRED, "class is one of the nine classes");
        /* look the entry up in the CSV rows (sorted by name): binary search */
        unsigned lo = 0, hi = SPEC_NTLD; int found = -1;
        while (lo < hi) {
            unsigned mid = lo + (hi - lo) / 2;
            int c = cmp(spec_tld[mid].name, a);
            if (c == 0) { found = (int)mid; break; }
            if (c < 0) lo = mid + 1; else hi = mid;
        }
        __CPROVER_assert(found >= 0, "every table entry is a row of the CSV (no domain absent from the CSV is found)");
        if (found >= 0) {
            __CPROVER_assert(tld_list[i].type == spec_tld[found].cls, "entry has the class the CSV row dictates (Not assigned / Retired overrides, else IANA type)");
            __CPROVER_assert(seen[found] == 0, "no CSV row appears twice in the table (no domain has two entries / two classes)");
            seen[found] = 1;
        }
    }
    /* SPEC_NTLD distinct rows marked among SPEC_NTLD rows: every CSV row is in the table */
    __CPROVER_assert(tld_list[SPEC_NTLD].domain == NULL && tld_list[SPEC_NTLD].length == 0, "sentinel terminates the table");
    for (unsigned i = 1; i < SPEC_NTLD; i++)
        __CPROVER_assert(cmp(spec_tld[i - 1].name, spec_tld[i].name) < 0, "generated spec rows are strictly sorted (precondition of the binary search)");
}
