/* job: sanitize_utf8 (bin/main.h) -- property C20: no write outside the buffer for any text of any length, result
   NUL-terminated; text without ASCII control characters is echoed unchanged.  The buffer is a file-scope static
   that survives between calls: the pre-state is an arbitrary earlier state (NULL/0 or an owned block of its size). */
#include <models_common.h>
#include <stddef.h>
#include <stdlib.h>

size_t g_len;            /* length of the text */
size_t g_k;              /* universally quantified position for the "echoed unchanged" statement */
int g_clean;             /* no control character among text[0..i) */
int g_ck;                /* text[g_k], bound in the precondition */
const char *g_text;

/* bin/main.h first (it defines the statics the contract names); main.h includes <eav/verif_hooks.h> itself */
#define EAV_VERIF_LOOP_sanitize_utf8 \
    __CPROVER_assigns(i, pos, g_clean, __CPROVER_object_whole(sanitized)) \
    __CPROVER_loop_invariant(i <= length && pos <= 4 * i && (g_clean == 0 || g_clean == 1) \
        && (g_clean ==> (pos == i && (g_k < i ==> sanitized[g_k] == (char)g_ck))) \
        && sanitized != NULL && sanitized_size >= 4 * length + 1 && __CPROVER_rw_ok(sanitized, sanitized_size)) \
    __CPROVER_decreases(length - i)
#define EAV_VERIF_STEP_sanitize_utf8 \
    if (c < 0x20 || c == 0x7f) g_clean = 0;

#include <bin/main.h>

const char *sanitize_utf8(const char *text, size_t length)
__CPROVER_requires(length == g_len && g_len <= ((size_t)1 << 31) && __CPROVER_is_fresh(text, g_len + 1) && g_text == text)
__CPROVER_requires((sanitized == NULL && sanitized_size == 0) || (sanitized_size >= 1 && sanitized_size <= ((size_t)1 << 34) && __CPROVER_is_fresh(sanitized, sanitized_size)))
__CPROVER_requires(g_clean == 1 && g_k < g_len && g_ck == (int)(unsigned char)text[g_k])
__CPROVER_assigns(sanitized, sanitized_size, g_clean)
__CPROVER_assigns(sanitized != NULL: __CPROVER_object_whole(sanitized))
__CPROVER_frees(sanitized)
/* allocation failure aside (A2): a buffer of at least 4*length+1 bytes, NUL-terminated text in it */
__CPROVER_ensures(__CPROVER_return_value == sanitized && sanitized_size >= 4 * g_len + 1)
/* echoed unchanged when there is no control character */
__CPROVER_ensures(g_clean ==> (__CPROVER_return_value[g_k] == (char)g_ck && __CPROVER_return_value[g_len] == 0))
;

void harness(void)
{
    const char *t; size_t n;
    const char *r = sanitize_utf8(t, n);
    __CPROVER_assert(!(g_clean && g_len >= 3), "REACH: clean text");
    __CPROVER_assert(!(!g_clean), "REACH: text with a control character");
}
