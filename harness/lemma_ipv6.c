/* job: counting lemmas about the IPv6 specification automaton (spec/spec_ip.h), used by the reject direction of job is_ipv6:
   no text the RFC 5321 grammar accepts has more than 7 colons, and five hex digits in a row kill the automaton from
   every state.  Loop-free over a symbolic state and character: an inductive invariant J is checked for one step. */
#include <spec_ip.h>
int nondet_int(void);
#define K (colons - groups)
#define J(ph, groups, hex, dc, colons) ( (dc == 0 || dc == 1) && groups >= 0 && groups <= 8 && colons >= 0 && hex >= 0 && hex <= 4 && \
    ( ph == V_START ? (colons == 0 && groups == 0 && dc == 0) : \
      ph == V_LEAD  ? (colons == 1 && groups == 0 && dc == 0) : \
      ph == V_HEX   ? (groups >= 1 && hex >= 1 && (colons - groups) <= 1 && (dc == 0 ? (colons - groups) == -1 : (colons - groups) >= 0)) : \
      ph == V_C1    ? (groups >= 1 && (colons - groups) <= 2 && (dc == 0 ? (colons - groups) == 0 : (colons - groups) >= 1)) : \
      ph == V_DC    ? (dc == 1 && (colons - groups) <= 2 && (colons - groups) >= 1 && (groups >= 1 ? (colons - groups) == 1 : colons == 2)) : \
      1 ) )

void harness(void)
{
    int ph = nondet_int(), groups = nondet_int(), hex = nondet_int(), dc = nondet_int(), colons = nondet_int(), c = nondet_int();
    __CPROVER_assume(ph >= V_START && ph <= V_DEAD && c >= 0 && c <= 255 && colons <= 1000);
    __CPROVER_assert(J(V_START, 0, 0, 0, 0), "LEMMA: J holds initially");
    __CPROVER_assume(J(ph, groups, hex, dc, colons));
    {
        int ph2 = V_NEXT_PH(ph, groups, hex, dc, c), g2 = V_NEXT_GROUPS(ph, groups, c), h2 = V_NEXT_HEX(ph, hex, c), d2 = V_NEXT_DC(ph, dc, c), c2 = colons + (c == ':' ? 1 : 0);
        __CPROVER_assert(ph2 == V_DEAD || J(ph2, g2, h2, d2, c2), "LEMMA: J is preserved by every live step");
    }
    __CPROVER_assert(!(V_ACC_5321(ph, groups, dc) || V_ACC_V4TAIL_5321(ph, groups, dc)) || colons <= 7, "LEMMA: an RFC 5321 IPv6 text has at most 7 colons");
    __CPROVER_assert(colons <= 10 || ph == V_DEAD, "LEMMA: a live state has read at most 10 colons");
    /* five hex digits in a row are fatal from every state */
    {
        int p = ph, g = groups, h = hex, d = dc;
        for (int i = 0; i < 5; i++) { int x = nondet_int(); __CPROVER_assume(x >= 0 && x <= 255 && V_IS_HEX(x)); int p2 = V_NEXT_PH(p, g, h, d, x), g2 = V_NEXT_GROUPS(p, g, x), h2 = V_NEXT_HEX(p, h, x); p = p2; g = g2; h = h2; }
        __CPROVER_assert(p == V_DEAD, "LEMMA: five hex digits in a row kill the automaton");
    }
    __CPROVER_assert(!(ph == V_HEX && dc == 1 && groups == 6 && colons == 7), "REACH: six groups and a '::' with seven colons");
}
