/* job: is_ascii_domain (src/is_ascii_domain.c) == host-name specification automaton (C04, C15, C06, C17) */
#include <models_common.h>
#include <scan_common.h>
#include <spec_host.h>

int g_ph, g_run, g_nn;     /* ghost automaton state */
int g_last;                /* last byte of the input (start[g_len-1]), -1 for the empty input */
#define G_EFF ((size_t)H_EFF(g_len, g_last))
#define NEXT_PH H_NEXT_PH(g_ph, g_run, g_la)

#ifdef SAFETY_ONLY
/* C06 variant: memory safety / termination / frame only, independent of the functional specification */
int is_ascii_domain(const char *start, const char *end)
__CPROVER_requires(RANGE_REQ(start, end, (size_t)0x7ffffff0) && start[g_len] == 0)
__CPROVER_assigns()
__CPROVER_ensures(__CPROVER_return_value <= 0 && __CPROVER_return_value > -EEAV_MAX)
;

#define EAV_VERIF_LOOP_is_ascii_domain \
    __CPROVER_assigns(cp, ch, label_length, label_count, non_numeric) \
    __CPROVER_loop_invariant(IN_OBJ(cp, start, end) && __CPROVER_POINTER_OFFSET(end) <= __CPROVER_POINTER_OFFSET(start) + g_len && __CPROVER_POINTER_OFFSET(end) <= __CPROVER_POINTER_OFFSET(start) + 254 && label_length >= 0 && (size_t)label_length <= (size_t)(cp - start) && label_count >= 0 && (size_t)label_count <= (size_t)(cp - start) \
        && (label_length > 0 ==> cp > start)) \
    __CPROVER_decreases(end - cp)

#else
int is_ascii_domain(const char *start, const char *end)
/* every call site passes a NUL-terminated string: start[g_len] == 0 (the hyphen test reads cp[1]) */
__CPROVER_requires(RANGE_REQ(start, end, (size_t)0x7ffffff0) && start[g_len] == 0)
__CPROVER_requires(g_last == (g_len >= 1 ? BYTE_AT(start + (g_len - 1)) : -1))
__CPROVER_requires(g_ph == H_START && g_run == 0 && g_nn == 0 && g_pos == 0 && g_cur == -1 && g_la == BYTE_AT(start))
__CPROVER_assigns(g_ph, g_run, g_nn, g_pos, g_cur, g_la)
/* accept => non-empty, <= 253 without the root dot, the automaton accepts the effective string, not all-numeric */
__CPROVER_ensures(__CPROVER_return_value == 0 ==> (g_len >= 1 && G_EFF <= H_MAXNAME && g_pos <= G_EFF &&
        (g_pos == G_EFF ? H_ACC(g_ph, g_nn) : g_la == 0)))
/* reject => the specification rejects */
__CPROVER_ensures(__CPROVER_return_value != 0 ==> (g_len == 0 || G_EFF > H_MAXNAME || g_ph == H_DEAD ||
        (g_pos == G_EFF && !H_ACC(g_ph, g_nn)) ||
        (g_pos < G_EFF && (g_la == 0 || NEXT_PH == H_DEAD || (g_pos + 1 == G_EFF && NEXT_PH != H_ALNUM)))))
/* C15: each code names a condition that holds */
__CPROVER_ensures(__CPROVER_return_value <= 0 && (__CPROVER_return_value == 0 || __CPROVER_return_value == -EEAV_DOMAIN_EMPTY || __CPROVER_return_value == -EEAV_DOMAIN_TOO_LONG ||
        __CPROVER_return_value == -EEAV_DOMAIN_LABEL_TOO_LONG || __CPROVER_return_value == -EEAV_DOMAIN_MISPLACED_DELIMITER || __CPROVER_return_value == -EEAV_DOMAIN_MISPLACED_HYPHEN ||
        __CPROVER_return_value == -EEAV_DOMAIN_INVALID_CHAR || __CPROVER_return_value == -EEAV_DOMAIN_NUMERIC))
__CPROVER_ensures((__CPROVER_return_value == -EEAV_DOMAIN_EMPTY) == (g_len == 0))
__CPROVER_ensures((__CPROVER_return_value == -EEAV_DOMAIN_TOO_LONG) == (g_len >= 1 && G_EFF > H_MAXNAME))
__CPROVER_ensures(__CPROVER_return_value == -EEAV_DOMAIN_LABEL_TOO_LONG ==> (g_run > H_MAXLABEL && H_IS_LETDIG(g_cur)))
__CPROVER_ensures(__CPROVER_return_value == -EEAV_DOMAIN_MISPLACED_DELIMITER ==> ((g_cur == '.' && g_run == 0) || (g_pos < G_EFF && g_la == 0) /* NUL inside: outside the property's domain */))
__CPROVER_ensures(__CPROVER_return_value == -EEAV_DOMAIN_MISPLACED_HYPHEN ==> (g_cur == '-' && (g_run == 1 || g_la == '.' || g_la == 0 || g_pos == G_EFF)))
__CPROVER_ensures(__CPROVER_return_value == -EEAV_DOMAIN_INVALID_CHAR ==> (g_cur >= 0 && !H_IS_LETDIG(g_cur) && g_cur != '.' && g_cur != '-'))
__CPROVER_ensures(__CPROVER_return_value == -EEAV_DOMAIN_NUMERIC ==> (g_nn == 0 && (g_pos == G_EFF || g_la == 0)))
;

#define EAV_VERIF_LOOP_is_ascii_domain \
    __CPROVER_assigns(cp, ch, label_length, label_count, non_numeric, g_ph, g_run, g_nn, g_pos, g_cur, g_la) \
    __CPROVER_loop_invariant(IN_OBJ(cp, start, end) && (size_t)(end - start) == G_EFF && G_EFF <= H_MAXNAME && g_len >= 1 \
        && g_pos == (size_t)(cp - start) && g_la == BYTE_AT(cp) && (cp > start ==> g_cur == BYTE_AT(cp - 1)) \
        && label_length >= 0 && (size_t)label_length <= g_pos && (non_numeric == 0 || non_numeric == 1) \
        && label_count >= 0 && (size_t)label_count <= g_pos \
        && g_run == label_length && g_nn == non_numeric \
        && (g_ph != H_DEAD ==> (label_length <= H_MAXLABEL && g_ph == (label_length == 0 ? H_START : cp[-1] == '-' ? H_HYPHEN : H_ALNUM))) \
        && (g_ph == H_DEAD ==> (label_length > H_MAXLABEL && cp[-1] == '-')) \
        && ((label_length == 0) == (cp == start || cp[-1] == '.')) \
        && ((label_length > 0 && cp[-1] == '-') ==> (cp < end && cp[0] != '.' && cp[0] != 0))) \
    __CPROVER_decreases(end - cp)

#define EAV_VERIF_STEP_is_ascii_domain \
    g_cur = g_la; g_ph = H_NEXT_PH(g_ph, g_run, g_cur); g_run = H_NEXT_RUN(g_run, g_cur); g_nn = H_NEXT_NN(g_nn, g_cur); \
    g_pos++; g_la = BYTE_AT(cp + 1);

#endif

#include <src/is_ascii_domain.c>

void harness(void)
{
    const char *s, *e;
    int r = is_ascii_domain(s, e);
#ifndef SAFETY_ONLY
    __CPROVER_assert(!(r == 0 && g_pos == G_EFF && g_len >= 5 && g_last == '.'), "REACH: accepting exit with root dot");
    __CPROVER_assert(!(r == -EEAV_DOMAIN_NUMERIC), "REACH: numeric");
    __CPROVER_assert(!(r == -EEAV_DOMAIN_LABEL_TOO_LONG), "REACH: label too long");
#else
    __CPROVER_assert(r > 0, "REACH: returns");
#endif
}
