/* job: is_6531_email (partial/<backend>/is_6531_email.c) proved against the composition contract of
   contracts/email.h; every callee replaced by its recording contract. */
#include <models_common.h>
#define EMAIL_MODE 6531
#include <email.h>


#ifdef HAVE_IDNKIT
eav_result_t *is_6531_email(idn_resconf_t ctx, idn_action_t actions, const char *email, size_t length, bool tld_check)
EMAIL_CONTRACT_6531
__CPROVER_assigns(rec_u8_ctx, rec_u8_actions)
__CPROVER_ensures(HOST ==> (rec_u8_ctx == ctx && rec_u8_actions == actions))
;
#include <partial/idnkit/is_6531_email.c>
#else
eav_result_t *is_6531_email(const char *email, size_t length, bool tld_check)
EMAIL_CONTRACT_6531
;
#if defined(HAVE_LIBIDN2)
#include <partial/idn2/is_6531_email.c>
#else
#include <partial/idn/is_6531_email.c>
#endif
#endif

void harness(void)
{
    const char *e; size_t n; bool t;
#ifdef HAVE_IDNKIT
    idn_resconf_t c; idn_action_t a;
    eav_result_t *r = is_6531_email(c, a, e, n, t);
#else
    eav_result_t *r = is_6531_email(e, n, t);
#endif
#ifdef PATH_LITERAL
    __CPROVER_assert(!(r->rc == 0 && r->is_ipv4), "REACH: IPv4 literal accepted");
    __CPROVER_assert(!(r->rc == 0 && r->is_ipv6 && g_tag_is_ipv6 && rec_ip6_calls == 1), "REACH: tagged IPv6 literal accepted");
    __CPROVER_assert(!(r->rc == 0 && r->is_ipv6 && rec_ip_calls == 1), "REACH: untagged IPv6 literal accepted");
    __CPROVER_assert(!(r->rc == -EEAV_IPADDR_BRACKET_UNPAIR), "REACH: unpaired bracket");
#else
    __CPROVER_assert(!(r->rc == TLD_TYPE_GENERIC && r->is_domain), "REACH: host name classified");
    __CPROVER_assert(!(r->rc == -EEAV_IDN_ERROR && !r->is_domain), "REACH: IDN error");
    __CPROVER_assert(!(r->rc == -EEAV_LPART_TOO_LONG), "REACH: local part too long");
    __CPROVER_assert(!(r->rc == -EEAV_EMAIL_EMPTY), "REACH: empty address");
#endif
}
