/* job: the body of parse_file's getline loop (bin/main.c), cut out mechanically on every run by
   tools/extract_cli_body.py as the function parse_line -- property C20, per line:
   for every line getline can return (>= 1 arbitrary bytes incl. NUL bytes, any length < 2^31, ending in "\n", "\r\n" or
   neither) the body stays inside the buffer, and
     - a line whose first byte is '#' produces no output and no library call;
     - every other line produces exactly one library call eav_is_email(eav, t, n) where (t, n) is the line after the
       tool's trimming (terminator, one leading space, one trailing blank; a C string ends at its first NUL), then
       exactly one record: "PASS: " or "FAIL: " according to that call's answer, followed by sanitize_utf8(t, n)
       (job cli_sanitize: clean text is echoed unchanged), and after a FAIL record one line with eav_errstr(eav);
     - the pass / fail counters follow the records.
   Loop-free (memcmp's two iterations are unwound): complete, no loop contract needed.

   Every byte of the line that the specification mentions is read ONCE, at the ghost step at the top of the body (before
   the body writes any NUL), into ghost scalars; contracts and models speak about those scalars only. */
#include <models_common.h>
#include <stdio.h>
#include <stdlib.h>
#include <string.h>
#include <sys/types.h>
#include <eav.h>

/* ---- the line as getline returned it (bound in the precondition) */
char *g_line; size_t g_cap; ssize_t g_r;
size_t g_p;                   /* PROPHECY: the index at which strlen will find the end of the text (universally quantified; the strlen model
                                 discards the runs in which the guess is wrong, so every real run is covered) */
int g_pb, g_pprev;            /* the bytes at g_p and g_p-1 in the line AS READ (before the body writes anything) */
int g_strlen_calls;
/* ---- computed once at the ghost step from the unmodified line */
size_t g_end;                 /* where the content ends: before "\r\n" / "\n", or at g_r */
int g_first;                  /* first byte */
size_t g_fn;                  /* where the C string that starts at the line's first byte ends (= g_p once strlen has confirmed the guess) */
size_t g_off;                 /* 1 if a leading space is skipped */
int g_lastb;                  /* last byte of the text that remains, -1 if it is empty */
size_t g_explen;              /* expected length of the trimmed text */
int g_stepped;
/* ---- record of calls and output */
enum { NONE, K_SANITIZE, K_ERRSTR };
int g_last_call, g_last_kind;          /* g_last_kind: 1 = PASS record printed last, 2 = FAIL record, 3 = message line */
unsigned long g_pass, g_fail, g_msg;
const char *rec_email; size_t rec_len; int rec_verdict, rec_calls;
const char *g_san_ret, *g_err_ret;

/* A8: strlen(s) = the index of the first NUL byte from s on.  Model: the prophesied index g_p, provided there IS a NUL
   there now and (instance of "no NUL before it") the place of the line terminator is not a NUL before it.  Other
   instances of "the first" are not needed: a C string ends where strlen says it ends; the obligations below say that
   this place is legitimate - at or before the terminator, and either the terminator's place or a NUL that was already
   in the line as read (so the body has not cut the text short by writing a NUL of its own). */
size_t strlen(const char *s)
{
    __CPROVER_assert(g_stepped && g_strlen_calls == 0 && s == g_line + g_off, "strlen is applied, once, to the line after at most one leading space");
    g_strlen_calls++;
    __CPROVER_assume(g_p >= g_off);
    size_t k = g_p - g_off;
    /* read through the argument, not through the ghost pointer: CBMC's points-to sets do not learn from the equality
       g_line == line assumed in the precondition, a dereference of g_line would read an unknown object */
    char at_k = s[k];
    __CPROVER_assume(at_k == 0);
    if (g_end - g_off < k) { char at_end = s[g_end - g_off]; __CPROVER_assume(at_end != 0); }
    __CPROVER_assert(g_p <= g_end, "the text handed to the library ends at or before the line terminator (the terminator has been replaced by NUL)");
    __CPROVER_assert(g_pb == 0 || g_p == g_end, "the text ends at the terminator or at a NUL byte of the line as read, not at a NUL the body wrote elsewhere");
    g_fn = g_p;
    g_lastb = (g_fn - g_off > 0) ? g_pprev : -1;
    g_explen = (g_lastb == ' ' || g_lastb == '\t') ? g_fn - g_off - 1 : g_fn - g_off;
    return k;
}

/* output model: which record, in which order, with which text.  Every output statement of the body has the shape
   msg_ok (format, text) = fprintf (stdout, format, text); a macro maps that shape onto a three-argument model (CBMC's
   handling of va_arg made symbolic execution crawl); any other shape does not compile and the job is undecided. */
#define fprintf(f, fmt, arg) model_fprintf(f, fmt, arg)
int model_fprintf(FILE *f, const char *fmt, const char *arg)
{
    char f0 = fmt[0], f1 = fmt[1];
    if (f0 == 'P' && f1 == 'A') {
        __CPROVER_assert(f == stdout && rec_calls == 1 && rec_verdict != 0 && g_last_call == K_SANITIZE && g_last_kind == 0 && arg == g_san_ret,
                         "PASS record: once, after eav_is_email said yes, with the sanitized trimmed line");
        g_pass++; g_last_kind = 1; g_last_call = NONE;
    } else if (f0 == 'F' && f1 == 'A') {
        __CPROVER_assert(f == stdout && rec_calls == 1 && rec_verdict == 0 && g_last_call == K_SANITIZE && g_last_kind == 0 && arg == g_san_ret,
                         "FAIL record: once, after eav_is_email said no, with the sanitized trimmed line");
        g_fail++; g_last_kind = 2; g_last_call = NONE;
    } else if (f0 == ' ') {
        __CPROVER_assert(f == stdout && g_last_kind == 2 && g_last_call == K_ERRSTR && arg == g_err_ret, "message line: right after the FAIL record, with eav_errstr's text");
        g_msg++; g_last_kind = 3; g_last_call = NONE;
    } else {
        __CPROVER_assert(0, "no other output inside the loop body");
    }
    return 0;
}

int eav_is_email(eav_t *eav, const char *email, size_t length)
/* the library is asked, once, about exactly the trimmed line */
__CPROVER_requires(g_stepped && g_strlen_calls == 1 && rec_calls == 0 && g_first != '#' && email == g_line + g_off && length == g_explen)
__CPROVER_assigns(rec_email, rec_len, rec_verdict, rec_calls)
__CPROVER_ensures(rec_email == email && rec_len == length && rec_verdict == __CPROVER_return_value && rec_calls == 1 && (__CPROVER_return_value == 0 || __CPROVER_return_value == 1))
;
const char *eav_errstr(eav_t *eav)
__CPROVER_requires(g_last_kind == 2)
__CPROVER_assigns(g_last_call)
__CPROVER_ensures(g_last_call == K_ERRSTR && __CPROVER_return_value == g_err_ret)
;

/* ghost step at the top of the body: the line has just been read, nothing has been written yet */
#define EAV_VERIF_STEP_parse_file { \
    int lb1_ = (int)(unsigned char)line[read - 1]; int lb2_ = read >= 2 ? (int)(unsigned char)line[read - 2] : -1; \
    g_first = (int)(unsigned char)line[0]; \
    g_end = (lb2_ == '\r' && lb1_ == '\n') ? (size_t)read - 2 : (lb1_ == '\n') ? (size_t)read - 1 : (size_t)read; \
    g_off = (g_first == ' ') ? 1 : 0; \
    g_pb = (int)(unsigned char)line[g_p]; g_pprev = g_p >= 1 ? (int)(unsigned char)line[g_p - 1] : -1; \
    g_stepped = 1; }

/* bin/main.h: msg_ok / msg_warn and sanitize_utf8 (proved in job cli_sanitize; here: it is given exactly the text that
   was validated, NUL-terminated) */
#include <bin/main.h>
const char *sanitize_utf8(const char *text, size_t length)
__CPROVER_requires(rec_calls == 1 && text == rec_email && length == rec_len && text[length] == 0)
__CPROVER_assigns(g_last_call)
__CPROVER_ensures(g_last_call == K_SANITIZE && __CPROVER_return_value == g_san_ret)
;

#include <cli_parse_line.gen.h>

#define OLD(x) __CPROVER_old(x)
static void parse_line(eav_t *eav, char *line, ssize_t read)
/* the buffer getline hands over: cap bytes, read >= 1 of them read, NUL after them */
__CPROVER_requires(g_cap <= ((size_t)1 << 31) && read >= 1 && (size_t)read < g_cap && __CPROVER_is_fresh(line, g_cap) && line[read] == 0)
__CPROVER_requires(g_line == line && g_r == read && g_p <= (size_t)read)
/* A8: fewer than 2^31 lines per file (the counters are int) */
__CPROVER_requires(pl_passed >= 0 && pl_passed < 0x7fffffff && pl_failed >= 0 && pl_failed < 0x7fffffff)
__CPROVER_requires(g_stepped == 0 && g_strlen_calls == 0 && rec_calls == 0 && g_last_kind == 0 && g_last_call == NONE && g_pass < (1UL << 62) && g_fail < (1UL << 62) && g_msg < (1UL << 62))
__CPROVER_assigns(pl_cp, pl_len, pl_passed, pl_failed, __CPROVER_object_whole(line))
__CPROVER_assigns(g_end, g_first, g_fn, g_off, g_lastb, g_explen, g_stepped, g_pb, g_pprev, g_strlen_calls, g_last_call, g_last_kind, g_pass, g_fail, g_msg, rec_email, rec_len, rec_verdict, rec_calls)
/* comment line: nothing happens */
__CPROVER_ensures(g_first == '#' ==> (rec_calls == 0 && g_pass == OLD(g_pass) && g_fail == OLD(g_fail) && g_msg == OLD(g_msg) && pl_passed == OLD(pl_passed) && pl_failed == OLD(pl_failed)))
/* any other line: one library call (its arguments are pinned by eav_is_email's precondition), one record that agrees with it */
__CPROVER_ensures(g_first != '#' ==> rec_calls == 1)
__CPROVER_ensures((g_first != '#' && rec_verdict != 0) ==> (g_pass == OLD(g_pass) + 1 && g_fail == OLD(g_fail) && g_msg == OLD(g_msg) && g_last_kind == 1 && pl_passed == OLD(pl_passed) + 1 && pl_failed == OLD(pl_failed)))
__CPROVER_ensures((g_first != '#' && rec_verdict == 0) ==> (g_fail == OLD(g_fail) + 1 && g_pass == OLD(g_pass) && g_msg == OLD(g_msg) + 1 && g_last_kind == 3 && pl_failed == OLD(pl_failed) + 1 && pl_passed == OLD(pl_passed)))
;

void harness(void)
{
    eav_t *e; char *l; ssize_t r;
    parse_line(e, l, r);
    __CPROVER_assert(!(g_first == '#'), "REACH: comment line");
    __CPROVER_assert(!(g_last_kind == 1 && g_explen >= 3 && g_off == 1), "REACH: PASS record for a line with a leading space");
    __CPROVER_assert(!(g_last_kind == 3 && g_lastb == '\t'), "REACH: FAIL record and message for a line with a trailing tab");
    __CPROVER_assert(!(g_last_kind == 3 && g_explen == 0), "REACH: empty line");
}
