/* job: is_ipv6 (src/is_ipv4_ipv6.c) against the RFC 4291 text-form automaton (C05, C06).
   The loop is width-bounded: every iteration consumes one ':' (the 8th returns NO) or a *maximal* run of
   hex digits, so it runs at most 17 times whatever the input length.  It is unwound 18 times with the
   unwinding assertion as an obligation: the unwinding is complete.  No loop invariant needed.
   Input length: g_len <= 45 here (see the precondition); longer inputs: job is_ipv6_len. */
#include <models_common.h>
#include <scan_common.h>
#include <spec_ip.h>

int v_ph, v_groups, v_hex, v_dc;    /* ghost automaton */
size_t g_grp;                       /* index at which the current / last hex group started */
int rec_ip4_calls, rec_ip4_rc; const char *rec_ip4_start, *rec_ip4_end;
/* reject direction */
int g_colons;                       /* ':' consumed by the ghost */
size_t g_run; const char *g_runp;   /* result and argument of the last strspn call */
int g_nb, g_nb2;                    /* universally quantified: bound in the postcondition to the next two unread bytes (read once each) */

/* A5: strspn(p, hexdigits): pointwise facts for the first five positions (only k <= 4 is ever used) */
size_t strspn(const char *p, const char *set)
{
    size_t k = nondet_size();
    g_runp = p;
    __CPROVER_assert(set[0] == '0' && set[9] == '9' && set[10] == 'a' && set[15] == 'f' && set[16] == 'A' && set[21] == 'F' && set[22] == 0, "strspn is modelled for the set of hex digits only");
    __CPROVER_assume(k <= 0x7fffffff);
    /* each byte is read once into a local: every textual dereference is a separate index for the array theory */
    if (k > 0) { int b0 = BYTE_AT(p);     __CPROVER_assume(V_IS_HEX(b0)); }
    if (k > 1) { int b1 = BYTE_AT(p + 1); __CPROVER_assume(V_IS_HEX(b1)); }
    if (k > 2) { int b2 = BYTE_AT(p + 2); __CPROVER_assume(V_IS_HEX(b2)); }
    if (k > 3) { int b3 = BYTE_AT(p + 3); __CPROVER_assume(V_IS_HEX(b3)); }
    if (k > 4) { int b4 = BYTE_AT(p + 4); __CPROVER_assume(V_IS_HEX(b4)); }
    if (k <= 4) { int bk = BYTE_AT(p + k); __CPROVER_assume(!V_IS_HEX(bk)); }
    g_run = k;
    return k;
}

int is_ipv4(const char *start, const char *end)
__CPROVER_assigns(rec_ip4_calls, rec_ip4_rc, rec_ip4_start, rec_ip4_end)
__CPROVER_ensures(rec_ip4_calls == __CPROVER_old(rec_ip4_calls) + 1 && rec_ip4_start == start && rec_ip4_end == end && rec_ip4_rc == __CPROVER_return_value && (__CPROVER_return_value == 0 || __CPROVER_return_value == 1))
/* proved in job is_ipv4: an accepted IPv4 address starts with a digit */
__CPROVER_ensures(__CPROVER_return_value != 0 ==> Q_IS_DIGIT(BYTE_AT(start)))
;

#define RET __CPROVER_return_value
int is_ipv6(const char *start, const char *end)
/* fixed 46-byte object: with a symbolic object size the 18 unwound iterations run out of memory (> 24 GB).
   Addresses longer than 45 bytes: job is_ipv6_len proves that without a dotted quad they are never accepted. */
#ifdef IPV6_ANYLEN
__CPROVER_requires(RANGE_REQ(start, end, (size_t)0x7ffffff0) && start[g_len] == ']')
#else
__CPROVER_requires(g_len <= 45 && __CPROVER_is_fresh(start, 46) && __CPROVER_pointer_in_range_dfcc(start, end, start + g_len) && end == start + g_len && start[g_len] == ']')
#endif
__CPROVER_requires(v_ph == V_START && v_groups == 0 && v_hex == 0 && v_dc == 0 && g_pos == 0 && g_grp == 0 && rec_ip4_calls == 0 && g_colons == 0 && g_run == 0)
__CPROVER_assigns(v_ph, v_groups, v_hex, v_dc, g_pos, g_grp, rec_ip4_calls, rec_ip4_rc, rec_ip4_start, rec_ip4_end, g_colons, g_run, g_runp)
__CPROVER_ensures(RET == 0 || RET == 1)
/* YES without a dotted quad => the automaton accepts exactly start[0..g_len) */
__CPROVER_ensures((RET != 0 && rec_ip4_calls == 0) ==> (g_pos == g_len ? V_ACC(v_ph, v_groups, v_dc) : (g_pos < g_len && start[g_pos] == 0)))
/* YES with a dotted quad => the hex part is right for a v4 tail and the tail, from the start of its group to
   the end, was accepted as an IPv4 address (is_ipv4's own contract says what that means) */
__CPROVER_ensures((RET != 0 && rec_ip4_calls != 0) ==> (rec_ip4_calls == 1 && rec_ip4_rc != 0 && V_ACC_V4TAIL(v_ph, v_groups, v_dc) &&
        rec_ip4_start == start + g_grp && rec_ip4_end == end && g_pos < g_len && start[g_pos] == '.' && g_grp < g_pos))
/* conversely: what the RFC 5321 grammar describes and this scan read to the end is accepted */
__CPROVER_ensures((rec_ip4_calls == 0 && g_pos == g_len && V_ACC_5321(v_ph, v_groups, v_dc)) ==> RET != 0)
__CPROVER_ensures((rec_ip4_calls == 1 && rec_ip4_rc != 0 && V_ACC_V4TAIL_5321(v_ph, v_groups, v_dc)) ==> RET != 0)
/* an early NO is justified: a dotted-quad tail was handed to is_ipv4 and refused, or the next unread byte(s) are fatal for
   the automaton: NUL; a dead step; a dead second step (":x" at the start, a second "::"); a '.' where no dotted quad may
   start; an 8th ':' (lemma_ipv6: at most 7); a run of five or more hex digits (lemma_ipv6: fatal from every state) */
__CPROVER_ensures(rec_ip4_calls != 0 ==> (rec_ip4_calls == 1 && RET == rec_ip4_rc))
__CPROVER_ensures((RET == 0 && rec_ip4_calls == 0 && g_pos < g_len && g_nb == BYTE_AT(start + g_pos) && g_nb2 == (g_pos + 1 < g_len ? BYTE_AT(start + g_pos + 1) : -1)) ==>
        (g_nb == 0 || (g_nb != '.' && V_NEXT_PH(v_ph, v_groups, v_hex, v_dc, g_nb) == V_DEAD) ||   /* a '.' is not a dead step: it hands over to the IPv4 automaton */
         (g_nb == '.' && !V_ACC_V4TAIL_5321(v_ph, v_groups, v_dc)) ||
         (g_nb == ':' && g_colons >= 7) ||
         (g_run > 4 && g_runp == start + g_pos) ||
         (g_nb2 >= 0 && g_nb != '.' && g_nb2 != '.' && V_NEXT_PH(V_NEXT_PH(v_ph, v_groups, v_hex, v_dc, g_nb), V_NEXT_GROUPS(v_ph, v_groups, g_nb), V_NEXT_HEX(v_ph, v_hex, g_nb), V_NEXT_DC(v_ph, v_dc, g_nb), g_nb2) == V_DEAD)))
;

#define V_STEP1(c) { int c_ = (c), ph_ = v_ph, gr_ = v_groups, hx_ = v_hex, dc_ = v_dc; \
    if (c_ == ':') g_colons++; v_ph = V_NEXT_PH(ph_, gr_, hx_, dc_, c_); v_groups = V_NEXT_GROUPS(ph_, gr_, c_); v_hex = V_NEXT_HEX(ph_, hx_, c_); v_dc = V_NEXT_DC(ph_, dc_, c_); g_pos++; }
/* the ':' branch has consumed exactly one ':' (cp was advanced by one) */
#define EAV_VERIF_AT_is_ipv6_colon \
    __CPROVER_assert(g_pos + 1 == (size_t)((const char *)cp - start), "GHOST: the ':' branch consumed exactly one byte"); V_STEP1(':')
/* the hex branch is about to consume the maximal run of len <= 4 hex digits at cp */
#define EAV_VERIF_AT_is_ipv6_hex \
    __CPROVER_assert(g_pos == (size_t)((const char *)cp - start) && len >= 1 && len <= 4, "GHOST: hex run of 1..4 digits starts where the ghost stands"); \
    g_grp = g_pos; \
    V_STEP1(cp[0]) if (len > 1) V_STEP1(cp[1]) if (len > 2) V_STEP1(cp[2]) if (len > 3) V_STEP1(cp[3])

#include <src/is_ipv4_ipv6.c>

void harness(void)
{
    const char *s, *e;
    int r = is_ipv6(s, e);
    __CPROVER_assert(!(r != 0 && rec_ip4_calls == 0 && g_pos == g_len && v_dc && v_groups == 3), "REACH: accept with '::'");
    __CPROVER_assert(!(r != 0 && rec_ip4_calls == 0 && g_pos == g_len && !v_dc), "REACH: accept 8 groups");
    __CPROVER_assert(!(r != 0 && rec_ip4_calls == 1), "REACH: accept with dotted-quad tail");
    __CPROVER_assert(!(r == 0 && g_pos == g_len), "REACH: reject at the end");
}
