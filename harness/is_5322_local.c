/* job: is_5322_local (src/is_5322_local.c) == the RFC 5322 specification automaton, both directions,
   every input length (loop contract; C02, C12, C15, C06). */
#include <models_common.h>
#include <scan_common.h>
#include <spec_local.h>

int g_prevch;             /* the byte before g_cur, -1 if none */
#define STEPF SPEC5322_STEP
#define AFTER1 STEPF(g_state, g_la)

#ifdef SAFETY_ONLY
/* C06 variant: memory safety / termination / frame only, independent of the functional specification */
int is_5322_local(const char *start, const char *end)
__CPROVER_requires(RANGE_REQ(start, end, MAXLEN))
__CPROVER_assigns()
__CPROVER_ensures(__CPROVER_return_value <= 0 && __CPROVER_return_value > -EEAV_MAX)
;

#define EAV_VERIF_LOOP_is_5322_local \
    __CPROVER_assigns(cp, ch, qpair, quote) \
    __CPROVER_loop_invariant(IN_OBJ(cp, start, end) && (quote==0||quote==1) && (qpair==0||qpair==1) && (quote ==> cp > start)) \
    __CPROVER_decreases(end - cp)

#else
int is_5322_local(const char *start, const char *end)
__CPROVER_requires(RANGE_REQ(start, end, MAXLEN))
__CPROVER_requires(g_state == L_START && g_pos == 0 && g_cur == -1 && g_prevch == -1 && g_la == LA_AT(start, end))
__CPROVER_assigns(g_state, g_pos, g_la, g_cur, g_prevch)
/* accept => the automaton accepts exactly the bytes start[0..g_len)  (or the scan met a NUL, outside the property's domain) */
__CPROVER_ensures((__CPROVER_return_value == 0) ==> (g_pos == g_len ? L_ACC(g_state) : (g_pos < g_len && g_la == 0)))
/* reject => the automaton rejects: it is dead, or ends non-accepting, or dies / ends non-accepting on the next byte */
__CPROVER_ensures((__CPROVER_return_value != 0) ==> (g_state == L_DEAD || (g_pos == g_len && !L_ACC(g_state)) ||
        (g_pos < g_len && (g_la == 0 || AFTER1 == L_DEAD || (g_pos + 1 == g_len && !L_ACC(AFTER1))))))
/* C15: the code names a condition that holds of the input */
__CPROVER_ensures(__CPROVER_return_value == 0 || __CPROVER_return_value == -EEAV_LPART_EMPTY || __CPROVER_return_value == -EEAV_LPART_NOT_ASCII ||
        __CPROVER_return_value == -EEAV_LPART_CTRL_CHAR || __CPROVER_return_value == -EEAV_LPART_MISPLACED_QUOTE || __CPROVER_return_value == -EEAV_LPART_SPECIAL ||
        __CPROVER_return_value == -EEAV_LPART_MISPLACED_DOT || __CPROVER_return_value == -EEAV_LPART_TOO_MANY_DOTS || __CPROVER_return_value == -EEAV_LPART_UNQUOTED || __CPROVER_return_value == -EEAV_LPART_UNQUOTED_FWS)
__CPROVER_ensures((__CPROVER_return_value == -EEAV_LPART_EMPTY) == (g_len == 0))
__CPROVER_ensures(__CPROVER_return_value == -EEAV_LPART_NOT_ASCII ==> g_cur > 127)
__CPROVER_ensures(__CPROVER_return_value == -EEAV_LPART_CTRL_CHAR ==> (g_cur >= 0 && (g_cur < 32 || g_cur == 127)))
/* a leading dot is 'misplaced dot' in every mode, also when another dot follows: the two dot codes are told apart by position */
__CPROVER_ensures(__CPROVER_return_value == -EEAV_LPART_TOO_MANY_DOTS ==> (g_cur == '.' && g_la == '.' && g_pos >= 2))
__CPROVER_ensures(__CPROVER_return_value == -EEAV_LPART_MISPLACED_DOT ==> (g_cur == '.' && (g_pos == 1 || g_pos == g_len)))
__CPROVER_ensures(__CPROVER_return_value == -EEAV_LPART_SPECIAL ==> ((L_IS_SPECIAL(g_cur) && g_cur != '"' && g_cur != '.') || g_cur == ' '))
/* C12/C15: the codes are pinned by disjoint conditions on the offending byte, so on inputs without DQUOTE and backslash all modes report the same code */
__CPROVER_ensures(__CPROVER_return_value == -EEAV_LPART_MISPLACED_QUOTE ==> (g_cur == '"' || g_prevch == '"'))
__CPROVER_ensures(__CPROVER_return_value == -EEAV_LPART_UNQUOTED ==> ((g_pos == g_len || g_la == 0) && (L5322_INQ(g_state) || g_state == L_QPAIR)))
__CPROVER_ensures(__CPROVER_return_value == -EEAV_LPART_UNQUOTED_FWS ==> (L_IS_WS(g_cur) && g_pos < g_len && !L_IS_DQWS(g_la)))
;

#define EAV_VERIF_LOOP_is_5322_local \
    __CPROVER_assigns(cp, ch, qpair, quote, g_state, g_pos, g_la, g_cur, g_prevch) \
    __CPROVER_loop_invariant(IN_OBJ(cp, start, end) \
        && g_pos == (size_t)(cp - start) && (quote==0||quote==1) && (qpair==0||qpair==1) && (!quote ==> !qpair) \
        && g_la == LA_AT(cp, end) && (cp > start ==> g_cur == BYTE_AT(cp - 1)) \
        && (!quote ==> g_state == ((cp==start || cp[-1]=='.') ? L_START : (cp[-1]=='"') ? L_QEND : L_ATOM)) \
        && ((quote && qpair) ==> g_state == L_QPAIR) \
        && ((quote && !qpair) ==> (cp > start && (L_IS_DQWS(cp[-1]) ? (g_state == L_QDQWS || g_state == L_QPEND) : g_state == L_QOTHER))) \
        && (g_state == L_QPEND ==> (cp == end || L_IS_DQWS(cp[0]))) \
        && ((!quote && cp > start && cp[-1]=='.') ==> (cp < end && cp[0] != '.'))) \
    __CPROVER_decreases(end - cp)

#define EAV_VERIF_STEP_is_5322_local \
    g_prevch = g_cur; g_cur = g_la; g_state = STEPF(g_state, g_cur); g_pos++; g_la = LA_AT(cp + 1, end);

#endif

#include <src/is_5322_local.c>

void harness(void)
{
    const char *s, *e;
    int r = is_5322_local(s, e);
#ifndef SAFETY_ONLY
    __CPROVER_assert(!(r == 0 && g_pos == g_len && g_len >= 4), "REACH: accepting exit");
    __CPROVER_assert(!(r != 0 && g_pos == g_len && g_len >= 2), "REACH: rejecting exit at the end");
    __CPROVER_assert(!(r != 0 && g_pos < g_len), "REACH: rejecting exit inside");
#else
    __CPROVER_assert(r > 0, "REACH: returns");
#endif
}
