/* job: a whole API history on one object, real eav_init / eav_setup / eav_is_email / eav_errstr / eav_free /
   eav_result_free inlined, callbacks modelled as allocating functions with arbitrary results.
   No contracts involved: loop-free code, symbolic settings -> complete for this history shape:
     init; [settings]; setup; is_email; errstr; [settings]; setup; is_email; errstr; setup; is_email; errstr; free; init; setup; is_email; free
   C06 (no leak, no double free, no read of an uninitialised field: the object starts with arbitrary content),
   C13 (release exactly once whatever the history), C18 (idnkit resolver life cycle). */
#include <models_common.h>
#include <stdbool.h>
#include <stdlib.h>
#include <eav.h>
#include <eav/auto_tld.h>

int g_strerror_calls, g_strerror_arg; const char *g_strerror_ret = "idn says no";
#include <idn_models.h>

static eav_result_t *mk(void)
{
    eav_result_t *r = malloc(sizeof(*r));
    __CPROVER_assume(r != NULL);
    r->is_ipv4 = nondet_bool(); r->is_ipv6 = nondet_bool(); r->is_domain = nondet_bool();
    r->rc = nondet_int(); __CPROVER_assume(r->rc > -EEAV_MAX && r->rc < TLD_TYPE_MAX);
    r->idn_rc = nondet_int();
#ifdef EAV_EXTRA
    r->lpart = nondet_bool() ? malloc(1) : NULL; r->domain = nondet_bool() ? malloc(1) : NULL;
#endif
    return r;
}
eav_result_t *is_822_email(const char *e, size_t n, bool t) { return mk(); }
eav_result_t *is_5321_email(const char *e, size_t n, bool t) { return mk(); }
eav_result_t *is_5322_email(const char *e, size_t n, bool t) { return mk(); }
#ifdef HAVE_IDNKIT
int g_live;
idn_result_t idn_resconf_initialize(void) { return nondet_int(); }
idn_result_t idn_resconf_create(idn_resconf_t *ctxp)
{
    idn_result_t r = nondet_int();
    if (r == idn_success) { __CPROVER_assert(g_live == 0, "SAFETY: no second resolver context while one is live"); g_live = 1; }
    return r;
}
void idn_resconf_destroy(idn_resconf_t ctx) { __CPROVER_assert(g_live == 1, "SAFETY: destroy of a live context only"); g_live = 0; }
eav_result_t *is_6531_email(idn_resconf_t c, idn_action_t a, const char *e, size_t n, bool t) { __CPROVER_assert(g_live == 1, "SAFETY: 6531 validation with a live resolver context"); return mk(); }
#else
eav_result_t *is_6531_email(const char *e, size_t n, bool t) { return mk(); }
#endif

#if defined(HAVE_LIBIDN2)
#include <partial/idn2/eav.c>
#elif defined(HAVE_LIBIDN)
#include <partial/idn/eav.c>
#else
#include <partial/idnkit/eav.c>
#endif
#include <src/eav.c>

static void settings(eav_t *e) { e->rfc = nondet_int(); e->tld_check = nondet_bool(); e->allow_tld = nondet_int(); }
static int g_validations;
static void use(eav_t *e, const char *s, size_t n)
{
    if (eav_setup(e) == EEAV_NO_ERROR) {
        int ok = eav_is_email(e, s, n);
        const char *m = eav_errstr(e);
        __CPROVER_assert(ok == (e->errcode == EEAV_NO_ERROR), "C15: returns 1 iff the recorded error is 'no error'");
        __CPROVER_assert(m != NULL, "C15: eav_errstr returns a message");
        g_validations++;
    }
}

void harness(void)
{
    eav_t e;                       /* arbitrary ("uninitialised") content */
    char s[4]; size_t n = 3; s[3] = 0;
    eav_init(&e);
    if (nondet_bool()) settings(&e);
    use(&e, s, n);
    settings(&e);
    use(&e, s, n);
    use(&e, s, n);
    eav_free(&e);            /* after eav_free the object is dead until the next eav_init (a second eav_free is not a legal history) */
    eav_init(&e);
    if (nondet_bool()) settings(&e);
    use(&e, s, n);
    eav_free(&e);
#ifdef HAVE_IDNKIT
    __CPROVER_assert(g_live == 0, "C18: back-end state is released by the end of the history");
#endif
    __CPROVER_assert(!(g_validations == 4), "REACH: four validations in one history");
}
