/* job: lemmas about the local-part specification automata themselves (spec/spec_local.h).
   Loop-free over a symbolic (state, character) pair: complete.  C02/C03 (dead is absorbing, closure),
   C03 (6531 vs 5321 on ASCII; non-ASCII characters), C12 (agreement without DQUOTE/backslash; 5321 ⊑ 822),
   C17 (RFC6531_FOLLOW_RFC20). */
#include <spec_local.h>
int nondet_int(void);
#define VALID(g) ((g) >= L_START && (g) <= L_DEAD)
#define S5321(g) ((g)==L_START||(g)==L_ATOM||(g)==L_QEND||(g)==L_QTEXT||(g)==L_QPAIR||(g)==L_DEAD)
#define S822(g)  (S5321(g)||(g)==L_QCR||(g)==L_QCRLF)
#define S5322(g) ((g)==L_START||(g)==L_ATOM||(g)==L_QEND||(g)==L_QDQWS||(g)==L_QOTHER||(g)==L_QPEND||(g)==L_QPAIR||(g)==L_DEAD)

void harness(void)
{
    int g = nondet_int(), c = nondet_int();
    __CPROVER_assume(VALID(g) && c >= 0 && c <= 0x10FFFF);
    int b = c & 0xFF;   /* a byte, for the ASCII-mode automata */

    __CPROVER_assert(!(g == L_QPEND && b == '"' && c > 127), "REACH: symbolic pair is unconstrained");

    /* dead is absorbing; the state sets are closed */
    __CPROVER_assert(SPEC822_STEP(L_DEAD, b) == L_DEAD && SPEC5321_STEP(L_DEAD, b) == L_DEAD && SPEC5322_STEP(L_DEAD, b) == L_DEAD && SPEC6531_STEP_DEFAULT(L_DEAD, c) == L_DEAD && SPEC6531_STEP_RFC20(L_DEAD, c) == L_DEAD, "L_DEAD is absorbing in every automaton");
    __CPROVER_assert(!S822(g) || S822(SPEC822_STEP(g, b)), "822: state set closed");
    __CPROVER_assert(!S5321(g) || S5321(SPEC5321_STEP(g, b)), "5321: state set closed");
    __CPROVER_assert(!S5322(g) || S5322(SPEC5322_STEP(g, b)), "5322: state set closed");
    __CPROVER_assert(!S5321(g) || S5321(SPEC6531_STEP_DEFAULT(g, c)), "6531: state set closed");
    __CPROVER_assert(!(b > 127) || (SPEC822_STEP(g, b) == L_DEAD && SPEC5321_STEP(g, b) == L_DEAD && SPEC5322_STEP(g, b) == L_DEAD), "ASCII modes: a byte >= 0x80 is never accepted");

    /* C03: on ASCII the 6531 automaton is the 5321 automaton */
    __CPROVER_assert(!(S5321(g) && c <= 127) || SPEC6531_STEP_DEFAULT(g, c) == SPEC5321_STEP(g, c), "C03: 6531 == 5321 on ASCII characters");
    /* C03: a non-ASCII character is one more atom / quoted-text character, never legal after a backslash or a closing quote */
    __CPROVER_assert(!(c > 127) || (SPEC6531_STEP_DEFAULT(L_START, c) == L_ATOM && SPEC6531_STEP_DEFAULT(L_ATOM, c) == L_ATOM && SPEC6531_STEP_DEFAULT(L_QTEXT, c) == L_QTEXT && SPEC6531_STEP_DEFAULT(L_QPAIR, c) == L_DEAD && SPEC6531_STEP_DEFAULT(L_QEND, c) == L_DEAD), "C03: non-ASCII characters");
    /* C03: hence 'a.X.b' is accepted for every non-ASCII X: START -a-> ATOM -.-> START -X-> ATOM -.-> START -b-> ATOM */
    __CPROVER_assert(!(c > 127) || L_ACC(SPEC6531_STEP_DEFAULT(SPEC6531_STEP_DEFAULT(SPEC6531_STEP_DEFAULT(SPEC6531_STEP_DEFAULT(SPEC6531_STEP_DEFAULT(L_START, 'a'), '.'), c), '.'), 'b')), "C03: a.X.b accepted");

    /* C12: without DQUOTE and backslash the four automata move in lock step through the unquoted states */
    if (L_IS_UNQ(g) && b <= 127 && b != '"' && b != '\\') {
        int t = SPEC5321_STEP(g, b);
        __CPROVER_assert(SPEC822_STEP(g, b) == t && SPEC5322_STEP(g, b) == t && SPEC6531_STEP_DEFAULT(g, b) == t, "C12: identical unquoted transitions in all four modes");
        __CPROVER_assert(L_IS_UNQ(t) || t == L_DEAD, "C12: unquoted states are left only through a DQUOTE");
    }
    /* C12: every transition of the 5321 automaton that stays alive is a transition of the 822 automaton */
    __CPROVER_assert(!(S5321(g) && SPEC5321_STEP(g, b) != L_DEAD) || SPEC822_STEP(g, b) == SPEC5321_STEP(g, b), "C12: 5321 is simulated by 822 (accepted in 5321 => accepted in 822)");

    /* C17: RFC6531_FOLLOW_RFC20 kills exactly # ^ ` { | } ~ outside quotes and changes nothing else */
    if (S5321(g)) {
        int d = SPEC6531_STEP_DEFAULT(g, c), r = SPEC6531_STEP_RFC20(g, c);
        __CPROVER_assert((L_IS_RFC20_CHAR(c) && (g == L_START || g == L_ATOM)) ? (d == L_ATOM && r == L_DEAD) : (r == d), "C17: RFC20 option differs from the default exactly on the seven characters outside quotes");
    }
}
