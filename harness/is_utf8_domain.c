/* job: is_utf8_domain (partial/<backend>/is_utf8_domain.c) against the assumed contract of the IDN
   library (A7): every return code, with or without an output buffer.  C04 (6531), C07, C10, C19, C06, C18. */
#include <models_common.h>
#include <stdbool.h>
#include <stdlib.h>
#include <eav.h>
#include <eav/auto_tld.h>

size_t g_len;                      /* length of the typed domain */
char *g_out; size_t g_outlen;      /* the converted (A-label) string the library produced */
int g_idn_rc, g_idn_calls; const char *g_idn_in;
long g_out_last_dot;               /* index of the last '.' of the converted string, -1 if none */
int g_buffer_on_failure;           /* does the library hand out a buffer although it failed? (both happen) */
size_t g_outlen_choice;            /* length of the converted string (universally quantified) */

#if defined(HAVE_LIBIDN2)
#include <idn2.h>
#define IDN_OK IDN2_OK
int idn2_to_ascii_8z(const char *input, char **output, int flags)
#define IDN_FLAGS_OK (flags == IDN2_NONTRANSITIONAL)
#elif defined(HAVE_LIBIDN)
#include <idna.h>
#define IDN_OK IDNA_SUCCESS
int idna_to_ascii_lz(const char *input, char **output, int flags)
#define IDN_FLAGS_OK (flags == 0)
#endif
#if defined(HAVE_LIBIDN2) || defined(HAVE_LIBIDN)
{
    g_idn_calls++; g_idn_in = input;
    __CPROVER_assert(IDN_FLAGS_OK, "IDN conversion is requested with the documented flags (IDNA2008 non-transitional for libidn2)");
    if (g_idn_rc == IDN_OK || g_buffer_on_failure) {
        char *b = malloc(g_outlen_choice + 1);
        __CPROVER_assume(b != NULL);
        b[g_outlen_choice] = 0;
        g_out = b; g_outlen = g_outlen_choice; *output = b;
    }
    return g_idn_rc;
}
#define OUT_IS_HEAP 1
#else
/* idnkit writes into the caller's buffer */
#define IDN_OK idn_success
idn_resconf_t g_ctx_in; idn_action_t g_act_in; size_t g_tolen;
idn_result_t idn_res_encodename(idn_resconf_t ctx, idn_action_t actions, const char *from, char *to, size_t tolen)
{
    g_idn_calls++; g_idn_in = from; g_ctx_in = ctx; g_act_in = actions; g_tolen = tolen;
    __CPROVER_assert(__CPROVER_w_ok(to, tolen + 1), "SAFETY: output buffer has room for tolen bytes and the terminator");
    if (g_idn_rc == IDN_OK) {
        __CPROVER_assume(g_outlen_choice <= tolen);
        to[g_outlen_choice] = 0;
        g_out = to; g_outlen = g_outlen_choice;
    }
    return g_idn_rc;
}
#define OUT_IS_HEAP 0
#endif

size_t strlen(const char *s) { __CPROVER_assert(s == g_out, "strlen is applied to the converted string"); return g_outlen; }
char *strrchr(const char *s, int c)
{
    __CPROVER_assert(s == g_out && c == '.', "strrchr('.') is applied to the whole converted string");
    return g_out_last_dot < 0 ? (char *)0 : (char *)s + g_out_last_dot;
}

/* call records; ranges are recorded as offsets from the converted string (it is released before the
   function returns, so the postconditions must not do pointer arithmetic on it) */
int rec_dom_calls, rec_dom_rc; long rec_dom_soff, rec_dom_eoff;
int rec_sp_calls, rec_sp_rc;   long rec_sp_soff, rec_sp_eoff;
int rec_tld_calls, rec_tld_rc; long rec_tld_soff, rec_tld_eoff;
#define REC(P) __CPROVER_assigns(rec_##P##_calls, rec_##P##_rc, rec_##P##_soff, rec_##P##_eoff) \
    __CPROVER_requires(__CPROVER_same_object(start, g_out) && __CPROVER_same_object(end, g_out)) \
    __CPROVER_ensures(rec_##P##_calls == __CPROVER_old(rec_##P##_calls) + 1 && rec_##P##_soff == start - g_out && rec_##P##_eoff == end - g_out && rec_##P##_rc == __CPROVER_return_value)
int is_ascii_domain(const char *start, const char *end) REC(dom) __CPROVER_ensures(__CPROVER_return_value <= 0 && __CPROVER_return_value > -EEAV_MAX);
int is_special_domain(const char *start, const char *end) REC(sp) __CPROVER_ensures(__CPROVER_return_value == 0 || __CPROVER_return_value == 1);
int is_tld(const char *start, const char *end) REC(tld) __CPROVER_ensures(__CPROVER_return_value == -EEAV_TLD_INVALID || (__CPROVER_return_value >= TLD_TYPE_NOT_ASSIGNED && __CPROVER_return_value <= TLD_TYPE_RETIRED));

#define RET __CPROVER_return_value
#ifdef HAVE_IDNKIT
int is_utf8_domain(idn_resconf_t ctx, idn_action_t actions, idn_result_t *r, const char *start, const char *end, bool tld_check)
#else
int is_utf8_domain(int *r, const char *start, const char *end, bool tld_check)
#endif
__CPROVER_requires(__CPROVER_is_fresh(r, sizeof(*r)) && g_len <= ((size_t)1 << 40) && __CPROVER_is_fresh(start, g_len + 1) && __CPROVER_pointer_in_range_dfcc(start, end, start + g_len) && end == start + g_len && start[g_len] == 0)
__CPROVER_requires(rec_dom_calls == 0 && rec_sp_calls == 0 && rec_tld_calls == 0 && g_idn_calls == 0 && g_out == NULL)
__CPROVER_requires(g_outlen_choice <= 4096 && g_out_last_dot >= -1 && g_out_last_dot < (long)g_outlen_choice)
__CPROVER_assigns(*r, rec_dom_calls, rec_dom_rc, rec_dom_soff, rec_dom_eoff, rec_sp_calls, rec_sp_rc, rec_sp_soff, rec_sp_eoff, rec_tld_calls, rec_tld_rc, rec_tld_soff, rec_tld_eoff)
__CPROVER_assigns(g_out, g_outlen, g_idn_calls, g_idn_in)
#ifdef HAVE_IDNKIT
__CPROVER_assigns(g_ctx_in, g_act_in, g_tolen)
#endif
__CPROVER_ensures(RET > -EEAV_MAX && RET < TLD_TYPE_MAX && (tld_check || RET <= 0))
__CPROVER_ensures(g_len == 0 ==> (RET == -EEAV_DOMAIN_EMPTY && g_idn_calls == 0))
/* the whole typed domain goes to the IDN library, once */
__CPROVER_ensures(g_len > 0 ==> (g_idn_calls == 1 && g_idn_in == start && *r == g_idn_rc))
#ifdef HAVE_IDNKIT
__CPROVER_ensures(g_len > 0 ==> (g_ctx_in == ctx && g_act_in == actions))
#endif
/* C19: whatever error the library returns: rejected with the IDN error code, nothing is treated as a domain */
__CPROVER_ensures((g_len > 0 && g_idn_rc != IDN_OK) ==> (RET == -EEAV_IDN_ERROR && rec_dom_calls == 0 && rec_sp_calls == 0 && rec_tld_calls == 0))
/* C04/C10: the host-name rules are applied to exactly the whole converted string */
__CPROVER_ensures((g_len > 0 && g_idn_rc == IDN_OK) ==> (rec_dom_calls == 1 && rec_dom_soff == 0 && rec_dom_eoff == (long)g_outlen))
__CPROVER_ensures((g_len > 0 && g_idn_rc == IDN_OK && rec_dom_rc != 0) ==> (RET == rec_dom_rc && rec_sp_calls == 0 && rec_tld_calls == 0))
#define CONV_OK (g_len > 0 && g_idn_rc == IDN_OK && rec_dom_rc == 0)
/* C08: TLD checking off */
__CPROVER_ensures((CONV_OK && !tld_check) ==> (RET == 0 && rec_sp_calls == 0 && rec_tld_calls == 0))
/* C07/C09/C10: same pipeline as the ASCII modes, on the converted string */
__CPROVER_ensures((CONV_OK && tld_check) ==> (rec_sp_calls == 1 && rec_sp_soff == 0 && rec_sp_eoff == (long)g_outlen))
__CPROVER_ensures((CONV_OK && tld_check && rec_sp_rc != 0) ==> (RET == TLD_TYPE_SPECIAL && rec_tld_calls == 0))
__CPROVER_ensures((CONV_OK && tld_check && rec_sp_rc == 0 && g_out_last_dot < 0) ==> (RET == -EEAV_DOMAIN_NOT_FQDN && rec_tld_calls == 0))
__CPROVER_ensures((CONV_OK && tld_check && rec_sp_rc == 0 && g_out_last_dot >= 0) ==> (rec_tld_calls == 1 && rec_tld_soff == g_out_last_dot + 1 && rec_tld_eoff == (long)g_outlen && RET == rec_tld_rc))
#if OUT_IS_HEAP
/* C06/C19: the buffer, if the library produced one, is released exactly once (double free is a CBMC check) */
__CPROVER_ensures(g_out != NULL ==> __CPROVER_was_freed(g_out))
#endif
;

#if defined(HAVE_LIBIDN2)
#include <partial/idn2/is_utf8_domain.c>
#elif defined(HAVE_LIBIDN)
#include <partial/idn/is_utf8_domain.c>
#else
#include <partial/idnkit/is_utf8_domain.c>
#endif

void harness(void)
{
    const char *s, *e; bool t;
#ifdef HAVE_IDNKIT
    idn_resconf_t c; idn_action_t a; idn_result_t *r;
    int rc = is_utf8_domain(c, a, r, s, e, t);
#else
    int *r;
    int rc = is_utf8_domain(r, s, e, t);
#endif
    __CPROVER_assert(!(rc == TLD_TYPE_COUNTRY_CODE), "REACH: classified");
#ifndef HAVE_IDNKIT
    __CPROVER_assert(!(rc == -EEAV_IDN_ERROR && g_out != NULL), "REACH: IDN failure with a buffer");
#endif
    __CPROVER_assert(!(rc == -EEAV_IDN_ERROR && g_out == NULL), "REACH: IDN failure without a buffer");
    __CPROVER_assert(!(rc == -EEAV_DOMAIN_NOT_FQDN), "REACH: not FQDN");
}
