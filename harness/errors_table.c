/* job: the errors[] table of src/eav.c (C15): one message per code, in enum order, each non-empty and about its own
   code's condition (a keyword taken from the name of the code).  Constants only: CBMC evaluates the table exactly. */
#include <stddef.h>
#include <src/eav.c>

static int contains(const char *m, const char *k)
{
    for (int i = 0; i < 48 && m[i]; i++) {
        int j = 0;
        for (; j < 20 && k[j] && m[i + j] == k[j]; j++) ;
        if (k[j] == 0) return 1;
    }
    return 0;
}

void harness(void)
{
    __CPROVER_assert(sizeof(errors) / sizeof(errors[0]) == EEAV_MAX, "errors[] has one entry per code");
    for (int c = 0; c < EEAV_MAX; c++) __CPROVER_assert(errors[c] != NULL && errors[c][0] != 0, "every code has a non-empty message");
#define KW(code, word) __CPROVER_assert(contains(errors[code], word), "message of " #code " mentions '" word "'")
    KW(EEAV_NO_ERROR, "no error"); KW(EEAV_INVALID_RFC, "RFC"); KW(EEAV_IDN_ERROR, "idn"); KW(EEAV_EMAIL_EMPTY, "empty");
    KW(EEAV_LPART_EMPTY, "empty"); KW(EEAV_LPART_EMPTY, "local"); KW(EEAV_LPART_TOO_LONG, "long"); KW(EEAV_LPART_TOO_LONG, "local");
    KW(EEAV_LPART_NOT_ASCII, "ascii"); KW(EEAV_LPART_SPECIAL, "special"); KW(EEAV_LPART_CTRL_CHAR, "control");
    KW(EEAV_LPART_MISPLACED_QUOTE, "quote"); KW(EEAV_LPART_UNQUOTED, "quote"); KW(EEAV_LPART_TOO_MANY_DOTS, "dots");
    KW(EEAV_LPART_MISPLACED_DOT, "dot"); KW(EEAV_LPART_UNQUOTED_FWS, "unquoted"); KW(EEAV_LPART_INVALID_FOLDING, "folding");
    KW(EEAV_LPART_INVALID_UTF8, "UTF-8"); KW(EEAV_DOMAIN_EMPTY, "domain"); KW(EEAV_DOMAIN_EMPTY, "empty");
    KW(EEAV_DOMAIN_LABEL_TOO_LONG, "label"); KW(EEAV_DOMAIN_MISPLACED_HYPHEN, "hyphen"); KW(EEAV_DOMAIN_MISPLACED_DELIMITER, "delimiter");
    KW(EEAV_DOMAIN_INVALID_CHAR, "invalid char"); KW(EEAV_DOMAIN_TOO_LONG, "domain is too long"); KW(EEAV_DOMAIN_NUMERIC, "numeric");
    KW(EEAV_DOMAIN_NOT_FQDN, "FQDN"); KW(EEAV_IPADDR_INVALID, "ip-addr"); KW(EEAV_IPADDR_BRACKET_UNPAIR, "bracket");
    KW(EEAV_TLD_INVALID, "invalid TLD"); KW(EEAV_TLD_NOT_ASSIGNED, "not assigned"); KW(EEAV_TLD_COUNTRY_CODE, "country");
    KW(EEAV_TLD_GENERIC, "generic TLD"); KW(EEAV_TLD_GENERIC_RESTRICTED, "restricted"); KW(EEAV_TLD_INFRASTRUCTURE, "infrastructure");
    KW(EEAV_TLD_SPONSORED, "sponsored"); KW(EEAV_TLD_TEST, "test"); KW(EEAV_TLD_SPECIAL, "special TLD"); KW(EEAV_TLD_RETIRED, "retired");
}
