/* jobs: eav_init, eav_setup, eav_free, eav_errstr, eav_result_free (partial/<backend>/eav.c, src/eav.c)
   each proved against its contract for an arbitrary pre-state.  Select with -DJOB_<name>.
   C06 (initialisation, release), C08 (defaults), C13 (history independence), C15 (eav_setup codes,
   messages), C18 (idnkit resolver life cycle). */
#include <models_common.h>
#include <eav_api.h>
#include <idn_models.h>

#ifdef HAVE_IDNKIT
/* A7 + C18: ghost count of live idnkit resolver contexts */
int g_live; idn_resconf_t g_ctx;
int g_create_rc, g_init_rc;
idn_result_t idn_resconf_initialize(void) { return g_init_rc; }
idn_result_t idn_resconf_create(idn_resconf_t *ctxp)
{
    if (g_create_rc == idn_success) {
        __CPROVER_assert(g_live == 0, "SAFETY: no resolver context is leaked by creating a second one");
        g_live = 1; *ctxp = g_ctx;
    }
    return g_create_rc;
}
void idn_resconf_destroy(idn_resconf_t ctx)
{
    __CPROVER_assert(g_live == 1 && ctx == g_ctx, "SAFETY: destroy of the live context only (no double destroy)");
    g_live = 0;
}
#define LIVE_OK(eav) ((g_live == 0 || g_live == 1) && ((eav)->initialized == (g_live == 1)) && ((eav)->initialized ==> (eav)->idn == g_ctx))
#define LIVE_ASSIGNS , g_live
#else
#define LIVE_OK(eav) 1
#define LIVE_ASSIGNS
#endif

int g_old_errcode; const char *g_old_idnmsg; bool g_old_utf8; int g_old_rfc;
eav_utf8_f g_old_utf8_cb; eav_ascii_f g_old_ascii_cb;

/* ------------------------------------------------------------------ eav_init */
#ifdef JOB_eav_init
void eav_init(eav_t *eav)
/* the object is uninitialised: every field arbitrary */
__CPROVER_requires(__CPROVER_is_fresh(eav, sizeof(*eav)))
__CPROVER_assigns(__CPROVER_object_whole(eav))
/* C08: mode 6531, TLD checking on, every class except not-assigned, test, retired */
__CPROVER_ensures(eav->rfc == EAV_RFC_6531 && eav->tld_check == true && eav->allow_tld == SPEC_DEFAULT_ALLOW)
/* C06: every field a later call reads is initialised */
__CPROVER_ensures(eav->result == NULL && eav->idnmsg == NULL && eav->errcode == EEAV_NO_ERROR && eav->initialized == false && eav->utf8 == false)
__CPROVER_ensures(eav->utf8_cb == NULL && eav->ascii_cb == NULL)
;
#endif

/* ------------------------------------------------------------------ eav_setup */
#ifdef JOB_eav_setup
int eav_setup(eav_t *eav)
__CPROVER_requires(__CPROVER_is_fresh(eav, sizeof(*eav)) && LIVE_OK(eav))
__CPROVER_requires(g_old_errcode == eav->errcode && g_old_utf8 == eav->utf8 && g_old_utf8_cb == eav->utf8_cb && g_old_ascii_cb == eav->ascii_cb && g_old_rfc == (int)eav->rfc)
__CPROVER_requires(g_strerror_calls == 0)
__CPROVER_assigns(eav->ascii_cb, eav->utf8_cb, eav->utf8, eav->initialized, eav->errcode, eav->idnmsg, g_strerror_calls, g_strerror_arg LIVE_ASSIGNS)
#ifdef HAVE_IDNKIT
__CPROVER_assigns(eav->idn)
#endif
__CPROVER_ensures(LIVE_OK(eav))
/* C01/C13: the mode chosen before eav_setup is the mode applied afterwards, whatever was confirmed before */
__CPROVER_ensures((g_old_rfc == EAV_RFC_822 || g_old_rfc == EAV_RFC_5321 || g_old_rfc == EAV_RFC_5322) ==> (__CPROVER_return_value == 0 && !eav->utf8 && !eav->initialized &&
        eav->ascii_cb == (g_old_rfc == EAV_RFC_822 ? is_822_email : g_old_rfc == EAV_RFC_5321 ? is_5321_email : is_5322_email)))
#ifdef HAVE_IDNKIT
__CPROVER_ensures(g_old_rfc == EAV_RFC_6531 ==> ((__CPROVER_return_value == 0) ? (eav->utf8 && eav->utf8_cb == is_6531_email && eav->initialized) : (__CPROVER_return_value == -EEAV_IDN_ERROR)))
#else
__CPROVER_ensures(g_old_rfc == EAV_RFC_6531 ==> (__CPROVER_return_value == 0 && eav->utf8 && eav->utf8_cb == is_6531_email))
#endif
/* C15: EEAV_INVALID_RFC for every other value, the confirmed mode is left alone and eav_errstr will report the condition */
__CPROVER_ensures((g_old_rfc < EAV_RFC_822 || g_old_rfc > EAV_RFC_6531) ==> (__CPROVER_return_value == EEAV_INVALID_RFC && eav->errcode == EEAV_INVALID_RFC &&
        eav->utf8 == g_old_utf8 && eav->utf8_cb == g_old_utf8_cb && eav->ascii_cb == g_old_ascii_cb))
__CPROVER_ensures((g_old_rfc >= EAV_RFC_822 && g_old_rfc <= EAV_RFC_6531 && __CPROVER_return_value == 0) ==> MODE_OK(eav))
;
#endif

/* ------------------------------------------------------------------ eav_free */
#ifdef JOB_eav_free
void eav_free(eav_t *eav)
__CPROVER_requires(__CPROVER_is_fresh(eav, sizeof(*eav)) && LIVE_OK(eav))
__CPROVER_requires(RESULT_OK(eav->result) && g_old_result == eav->result)
__CPROVER_assigns(eav->result LIVE_ASSIGNS)
#ifdef HAVE_IDNKIT
__CPROVER_assigns(eav->initialized)
#endif
__CPROVER_frees(eav->result)
#ifdef EAV_EXTRA
__CPROVER_frees(eav->result != NULL: eav->result->lpart, eav->result->domain)
__CPROVER_assigns(eav->result != NULL: eav->result->lpart, eav->result->domain)
#endif
__CPROVER_ensures(eav->result == NULL && (g_old_result != NULL ==> __CPROVER_was_freed(g_old_result)))
#ifdef HAVE_IDNKIT
/* C18: back-end state is released exactly once */
__CPROVER_ensures(g_live == 0)
#endif
;
#endif

/* ------------------------------------------------------------------ eav_errstr */
#ifdef JOB_eav_errstr
const char *g_msg[EEAV_MAX];
const char *eav_errstr(eav_t *eav)
__CPROVER_requires(__CPROVER_is_fresh(eav, sizeof(*eav)) && eav->errcode >= 0 && eav->errcode < EEAV_MAX)
__CPROVER_requires(g_old_errcode == eav->errcode && g_old_idnmsg == eav->idnmsg)
__CPROVER_assigns()
/* C15/C19: the IDN library's own message for an IDN failure, else the message of the recorded code */
__CPROVER_ensures(g_old_errcode == EEAV_IDN_ERROR ? __CPROVER_return_value == g_old_idnmsg : (__CPROVER_return_value != NULL && __CPROVER_return_value[0] != 0))
;
#endif

/* ------------------------------------------------------------------ eav_result_free */
#ifdef JOB_eav_result_free
void eav_result_free(eav_result_t *result)
__CPROVER_requires(RESULT_OK(result) && g_old_result == result)
__CPROVER_assigns()
#ifdef EAV_EXTRA
__CPROVER_assigns(result != NULL: result->lpart, result->domain)
__CPROVER_frees(result != NULL: result->lpart, result->domain)
#endif
__CPROVER_frees(result)
__CPROVER_ensures(g_old_result != NULL ==> __CPROVER_was_freed(g_old_result))
;
#endif

#if defined(HAVE_LIBIDN2)
#include <partial/idn2/eav.c>
#elif defined(HAVE_LIBIDN)
#include <partial/idn/eav.c>
#else
#include <partial/idnkit/eav.c>
#endif
#include <src/eav.c>

void harness(void)
{
    eav_t *e;
#ifdef JOB_eav_init
    eav_init(e);
    __CPROVER_assert(0, "REACH: eav_init returns");
#endif
#ifdef JOB_eav_setup
    int r = eav_setup(e);
    __CPROVER_assert(!(r == EEAV_INVALID_RFC && g_old_utf8), "REACH: invalid rfc on an object in utf8 mode");
    __CPROVER_assert(!(r == 0 && g_old_rfc == EAV_RFC_6531), "REACH: 6531 confirmed");
    __CPROVER_assert(!(r == 0 && g_old_rfc == EAV_RFC_5322 && g_old_utf8), "REACH: switch from 6531 to an ASCII mode");
#endif
#ifdef JOB_eav_free
    eav_free(e);
    __CPROVER_assert(!(g_old_result != NULL), "REACH: eav_free with a result");
#endif
#ifdef JOB_eav_errstr
    const char *m = eav_errstr(e);
    __CPROVER_assert(!(g_old_errcode == EEAV_IDN_ERROR), "REACH: idn message");
    __CPROVER_assert(!(g_old_errcode == EEAV_TLD_RETIRED), "REACH: last table entry");
    /* C15: table order = enum order; every message non-empty and about the right subject (constant evaluation) */
    __CPROVER_assert(sizeof(errors) / sizeof(errors[0]) == EEAV_MAX, "errors[] has one entry per code");
#endif
#ifdef JOB_eav_result_free
    eav_result_t *r;
    eav_result_free(r);
    __CPROVER_assert(!(g_old_result != NULL), "REACH: non-NULL result freed");
#endif
}
