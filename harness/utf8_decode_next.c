/* job: utf8_decode_next (src/utf8_decode.c; get/cont inlined) == Unicode Table 3-7 (C03, C06).
   Loop-free: complete for every byte tuple at every offset of a buffer of every length. */
#include <models_common.h>
/* utf8_decode.h has no include guard: the real .c file (which includes it) comes first, the contract is
   attached to a re-declaration after it */
#include <src/utf8_decode.c>
#include <spec_utf8.h>

size_t g_buflen; int g_b0, g_b1, g_b2, g_b3, g_oi, g_ol, g_ob, g_oc;
#define WFLEN U_WFLEN(g_b0, g_b1, g_b2, g_b3)
#define CPV   U_CP(g_b0, g_b1, g_b2, g_b3)
#define BYTEK(u,k) (((u)->the_index + (k) < (u)->the_length) ? (int)(unsigned char)(u)->the_input[(u)->the_index + (k)] : -1)

int utf8_decode_next(utf8_decode_t *u)
__CPROVER_requires(__CPROVER_is_fresh(u, sizeof(*u)))
__CPROVER_requires(u->the_length >= 0 && (size_t)u->the_length <= g_buflen && g_buflen <= 0x7ffffff0 && __CPROVER_is_fresh(u->the_input, g_buflen + 1))
__CPROVER_requires(u->the_index >= 0 && u->the_index <= u->the_length && u->the_char >= 0 && u->the_char <= u->the_index)
__CPROVER_requires(g_oi == u->the_index && g_ol == u->the_length && g_ob == u->the_byte && g_oc == u->the_char)
__CPROVER_requires(g_b0 == BYTEK(u,0) && g_b1 == BYTEK(u,1) && g_b2 == BYTEK(u,2) && g_b3 == BYTEK(u,3))
__CPROVER_assigns(u->the_index, u->the_byte, u->the_char)
__CPROVER_ensures(g_oi == g_ol ==> (__CPROVER_return_value == UTF8_END && u->the_index == g_oi && u->the_byte == g_ob && u->the_char == g_oc))
__CPROVER_ensures(g_oi < g_ol ==> (u->the_byte == g_oi && u->the_char == g_oc + 1))
__CPROVER_ensures(WFLEN >= 1 ==> (u->the_index == g_oi + WFLEN && __CPROVER_return_value == CPV))
__CPROVER_ensures((g_oi < g_ol && WFLEN == 0) ==> (__CPROVER_return_value == UTF8_ERROR && u->the_index > g_oi && u->the_index <= g_ol))
__CPROVER_ensures(__CPROVER_return_value >= 0 ==> (WFLEN >= 1 && __CPROVER_return_value <= 0x10FFFF && !U_IN(__CPROVER_return_value, 0xD800, 0xDFFF) && ((__CPROVER_return_value <= 0x7F) == (WFLEN == 1))))
__CPROVER_ensures(__CPROVER_return_value >= UTF8_ERROR)
;

void harness(void)
{
    utf8_decode_t *u;
    int r = utf8_decode_next(u);
    __CPROVER_assert(!(r > 0xFFFF), "REACH: four-byte sequence decoded");
    __CPROVER_assert(!(r == UTF8_ERROR && g_b0 == 0xED), "REACH: surrogate rejected");
    __CPROVER_assert(!(r == UTF8_END), "REACH: end");
}
