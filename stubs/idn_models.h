/* A7: assumed contracts of the IDN libraries' message functions (every back end) */
#ifndef VERIF_IDN_MODELS_H
#define VERIF_IDN_MODELS_H
#if defined(HAVE_LIBIDN2)
const char *idn2_strerror(int rc) { g_strerror_calls++; g_strerror_arg = rc; return g_strerror_ret; }
#elif defined(HAVE_LIBIDN)
const char *idna_strerror(int rc) { g_strerror_calls++; g_strerror_arg = rc; return g_strerror_ret; }
#else
const char *idn_result_tostring(idn_result_t rc) { g_strerror_calls++; g_strerror_arg = rc; return g_strerror_ret; }
#endif
#endif
