/* Models shared by every job (DESIGN.md 2.1, section 6). */
#ifndef VERIF_MODELS_COMMON_H
#define VERIF_MODELS_COMMON_H
#include <stddef.h>
_Bool nondet_bool(void); int nondet_int(void); size_t nondet_size(void); unsigned char nondet_uchar(void);
/* A1: glibc's isascii for the C locale; iscntrl/isdigit/isalnum are CBMC's built-in C-locale models
   (compiled with -D__NO_CTYPE so that <ctype.h> declares functions, not table macros) */
int isascii(int c) { return (c & ~0x7f) == 0; }
/* CBMC models abort() as assume(false); the property says "never aborts", so make it an obligation */
void abort(void) { __CPROVER_assert(0, "abort() is unreachable"); __CPROVER_assume(0); }
#endif
