#ifndef STUB_IDN_API_H
#define STUB_IDN_API_H
#include <stddef.h>
typedef int idn_result_t;
enum { idn_success = 0 };
typedef struct idn_resconf *idn_resconf_t;
typedef unsigned long idn_action_t;
#define IDN_ENCODE_REGIST 0x1UL
idn_result_t idn_resconf_initialize(void);
idn_result_t idn_resconf_create(idn_resconf_t *ctxp);
void idn_resconf_destroy(idn_resconf_t ctx);
idn_result_t idn_res_encodename(idn_resconf_t ctx, idn_action_t actions, const char *from, char *to, size_t tolen);
const char *idn_result_tostring(idn_result_t r);
#endif
