/* Declaration-only stand-in for GNU libidn's <idna.h> (not installed in this image): the three
   names partial/idn uses, with the prototypes of libidn's public documentation.  Trusted (A7). */
#ifndef STUB_IDNA_H
#define STUB_IDNA_H
enum { IDNA_SUCCESS = 0 };
int idna_to_ascii_lz (const char *input, char **output, int flags);
const char *idna_strerror (int rc);
#endif
