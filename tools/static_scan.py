#!/usr/bin/env python3
"""C14 support: list every static-lifetime symbol of the library translation units (goto symbol table)
and report those that are not const-qualified.  DFCC checks writes to file-scope statics against the
assigns clauses but exempts function-local statics; this scan closes that gap."""
import os, re, subprocess, sys, tempfile, json, glob


def scan(repo, backend='idn2', defs=('-DHAVE_LIBIDN2',), extra_inc=()):
    files = sorted(glob.glob(os.path.join(repo, 'src', '*.c'))) + sorted(glob.glob(os.path.join(repo, 'partial', backend, '*.c')))
    out = []
    with tempfile.TemporaryDirectory(prefix='eavscan') as d:
        for f in files:
            gb = os.path.join(d, 'x.gb')
            cmd = ['goto-cc', '-D__NO_CTYPE', '-D_DEFAULT_SOURCE'] + list(defs) + ['-I' + repo + '/include', '-I' + repo] + list(extra_inc) + ['-c', f, '-o', gb]
            r = subprocess.run(cmd, capture_output=True, text=True)
            if r.returncode != 0:
                out.append(dict(file=os.path.relpath(f, repo), symbol='<compile error>', type=r.stderr[-300:], const=False, flags=''))
                continue
            t = subprocess.run(['goto-instrument', '--show-symbol-table', gb], capture_output=True, text=True).stdout
            for blk in t.split('\n\n'):
                m = re.search(r'^Symbol\.+: (.*)$', blk, re.M)
                fl = re.search(r'^Flags\.+: (.*)$', blk, re.M)
                ty = re.search(r'^Type\.+: (.*)$', blk, re.M)
                loc = re.search(r'^Location\.+: file (\S+)', blk, re.M)
                if not (m and fl and ty):
                    continue
                flags = fl.group(1)
                if 'static_lifetime' not in flags or 'extern' in flags.split() or ' type' in (' ' + flags) and 'lvalue' not in flags:
                    continue
                name = m.group(1)
                if name.startswith('__CPROVER') or name.startswith('__PRETTY') or name in ('stdin', 'stdout', 'stderr', 'errno'):
                    continue
                where = loc.group(1) if loc else ''
                if where and not where.startswith(repo):
                    continue   # system headers
                typ = ty.group(1).strip()
                is_const = typ.startswith('const ') or name.startswith('__func__') or '::__func__' in name
                out.append(dict(file=os.path.relpath(f, repo), symbol=name, type=typ[:80], const=is_const, flags=flags))
    return out


if __name__ == '__main__':
    repo = sys.argv[1] if len(sys.argv) > 1 else '/repo'
    res = scan(repo)
    bad = [x for x in res if not x['const']]
    for x in res:
        print(('MUTABLE ' if not x['const'] else 'const   ') + x['file'] + ' ' + x['symbol'] + ' : ' + x['type'])
    sys.exit(1 if bad else 0)
