#!/bin/bash
# run_seed.sh <seed-dir-name> <property> [extra check args]: run a check against a scratch worktree of /repo with the seeded change applied
seed=$1; prop=$2; shift 2
wt=/tmp/seedrun_${seed}_$prop
git -C /repo worktree remove --force $wt >/dev/null 2>&1
git -C /repo worktree add -q --detach $wt HEAD || exit 2
git -C $wt apply /verif/seeded/$seed/patch.diff || { echo "patch does not apply"; exit 2; }
mkdir -p /verif/seeded/$seed/replays /tmp/seedrun_ev
cd /verif
t0=$(date +%s)
VERIF_REPO=$wt VERIF_EVIDENCE_DIR=/tmp/seedrun_ev/$seed VERIF_REPLAY_DIR=/verif/seeded/$seed/replays ./check $prop "$@" > /verif/seeded/$seed/check_$prop.log 2>&1
rc=$?
echo "seed=$seed property=$prop exit=$rc wall=$(( $(date +%s) - t0 ))s : $(grep -c '^VIOLATION' /verif/seeded/$seed/check_$prop.log) violation line(s); $(grep -m1 '^FAILED-OBLIGATION' /verif/seeded/$seed/check_$prop.log | cut -c1-220)"
git -C /repo worktree remove --force $wt
exit $rc
