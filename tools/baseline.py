#!/usr/bin/env python3
"""Run the repository's own test suite with the verification guard OFF (plain `make clean all check`) and compare with
/root/.vp/BASELINE.json: every stable-pass test must still pass."""
import json, re, subprocess, sys
r = subprocess.run(['make', '-C', '/repo', 'clean', 'all', 'check'], capture_output=True, text=True, errors='replace')
out = r.stdout + r.stderr
passed = set()
for l in out.split('\n'):
    m = re.match(r'^PASS: (.*)$', l)
    if m: passed.add(m.group(1))
    m = re.match(r'^(\./t-[\w-]+\.bin): PASS', l)
    if m: passed.add(m.group(1))
b = json.load(open('/root/.vp/BASELINE.json'))
missing = [x for x in b['stable_pass'] if x not in passed]
print('make exit', r.returncode, '| stable_pass', len(b['stable_pass']), '| missing', len(missing), missing[:10])
sys.exit(0 if r.returncode == 0 and not missing else 1)
