#!/usr/bin/env python3
"""Write seeded/<id>/meta.json from the table below + the logs of tools/run_seed.sh (check_<prop>.log)."""
import json, os, re, glob
S = '/verif/seeded'
T = {
 'C01-a': ('C01', 'include/eav/private_email.h: the 64-octet limit is measured up to the FIRST "@" (strcspn) while the split is at the last one',
           'an address with two "@" (one inside a quoted local part), first at offset <= 64, last beyond 64'),
 'C02-a': ('C02', 'src/is_822_local.c: the quoted-pair branch moved in front of the ch > 127 test',
           'mode 822, a backslash inside a quoted string followed by a byte >= 0x80'),
 'C03-a': ('C03', 'src/is_6531_local.c: previous character kept in a char (code point truncated to its low byte)',
           'mode 6531, a non-ASCII character whose code point has low byte 0x2E / 0x22 / 0x00 next to a dot or quote (e.g. a.U+012E.b)'),
 'C04-a': ('C04', 'src/is_ascii_domain.c: trailing-hyphen test split between the hyphen and the dot branch',
           'a host name whose last label ends in "-" followed by the root dot (example.com-.)'),
 'C05-a': ('C05', 'src/is_ipv4_ipv6.c: leading zeros no longer count towards the 4-digit limit of an IPv6 group',
           'an IPv6 group of 5 or more hex digits whose extra digits are leading zeros ([IPv6:2001:db8::00001])'),
 'C06-a': ('C06', 'partial/idn2/is_utf8_domain.c: early return on the reserved-domain branch skips free(domain)',
           'mode 6531, tld_check on, a reserved domain (user@example.com): one leaked block per call'),
 'C07-a': ('C07', 'src/is_tld.c: function-local static cache of the last hit, compared over the length of the queried label only',
           'two-step sequence: a successful lookup (…​.com), then a label that is a proper prefix of it (….co, ….c)'),
 'C08-a': ('C08', 'include/eav/private_email.h: reserved-domain test moved before the tld_check == false return',
           'ASCII mode, tld_check off, allow_tld without EAV_TLD_SPECIAL, a reserved domain'),
 'C09-a': ('C09', 'src/is_special_domain.c: early return NO at the end of the "example" branch',
           'second-to-last label "example" and a reserved last label (example.test, a.b.example.localhost)'),
 'C10-a': ('C10', 'partial/idn2/is_utf8_domain.c: early DOMAIN_TOO_LONG on the UTF-8 length before the IDN conversion',
           'mode 6531, a U-label domain of >= 255 UTF-8 bytes whose A-label form is a legal name'),
 'C11-a': ('C11', 'src/is_tld.c: compares only end-start bytes and skips shorter entries: exact lookup became prefix lookup',
           'a last label that is a proper prefix of a table row (example.comp -> company, mail.c -> ca)'),
 'C12-a': ('C12', 'src/is_5322_local.c: ISCNTRL(ch) replaced by ch < 0x20 (forgets DEL)',
           'mode 5322 only, an unquoted DEL byte in the local part'),
 'C13-a': ('C13', 'two cooperating edits: eav_errstr returns idnmsg whenever non-NULL; eav_is_email clears idnmsg only on hard failures',
           'history: an IDN failure in mode 6531, then a call ending with rc >= 0 on the same object, then eav_errstr'),
 'C14-a': ('C14', 'src/is_special_domain.c: the scratch label buffer made static',
           'two threads validating host names with reserved-length last labels concurrently'),
 'C15-a': ('C15', 'two cooperating edits: eav_is_email clears idnmsg only in the utf8 branch; eav_errstr prefers idnmsg',
           'history: IDN failure in 6531, switch to an ASCII mode, validate, eav_errstr'),
 'C16-a': ('C16', 'include/eav/private_email.h: family of a digit-led literal decided by memchr(brs+1, \':\', 4)',
           'an accepted untagged IPv6 literal whose first group has four hex digits ([2001:db8::1]): flagged is_ipv4'),
 'C17-a': ('C17', 'src/is_ascii_domain.c (+ ISALPHA in private.h): non_numeric set only for letters',
           'LABELS_ALLOW_UNDERSCORE build, a host name made of digits, dots and underscores only'),
 'C19-a': ('C19', 'partial/idn2/is_utf8_domain.c: IDN-failure branch returns directly instead of goto done',
           'idn2_to_ascii_8z fails AND has produced an output buffer: the buffer leaks'),
}
T.update({
 'C01-b': ('C01', 'partial/idn2/eav.c: repeated eav_setup in mode 6531 breaks out into the ASCII tail', 'two consecutive eav_setup calls with rfc 6531, then an address on which 6531 and the stale ASCII mode differ'),
 'C02-b': ('C02', 'src/is_5322_local.c: closing-quote rule skipped when the quote is preceded by a backslash', 'mode 5322, a quoted string ending in an escaped backslash directly followed by atom text'),
 'C03-b': ('C03', 'src/utf8_decode.c cont(): range test on a signed value takes end-of-input for a continuation byte', 'mode 6531, a local part that ends inside a multi-byte sequence'),
 'C04-b': ('C04', 'src/is_ascii_domain.c: label length checked only when a dot is met', 'an over-long LAST label (64+ bytes)'),
 'C05-b': ('C05', 'src/is_ipv4_ipv6.c: one more colon allowed once a "::" was seen', '8 hex groups plus an interior "::"'),
 'C06-b': ('C06', 'src/is_ipv4_ipv6.c is_ipv4: octet value tested once per octet, accumulator unbounded', 'an IPv4 octet of 10 or more digits (signed overflow)'),
 'C07-b': ('C07', 'include/eav/private_email.h check_tld: last label copied into a 24-byte buffer, longer labels clamped', 'ASCII mode, tld_check on, a 25..63-byte last label whose first 24 bytes are the table\'s 24-byte entry'),
 'C08-b': ('C08', 'partial/idn2/eav.c: GENERIC_RESTRICTED tested against the GENERIC bit', 'allow_tld with exactly one of the two bits, TLD biz/name/pro'),
 'C09-b': ('C09', 'src/is_special_domain.c: reserved[] entry { "example", 7 }', 'a 9-byte last label starting with "example"'),
 'C10-b': ('C10', 'partial/idn2/is_utf8_domain.c: root dot stripped before the TLD lookup', 'mode 6531, tld_check on, a non-reserved domain with trailing root dot'),
 'C11-b': ('C11', 'src/auto_tld.c: row { "cooking", 7, TLD_TYPE_GENERIC }', 'a TLD that begins with "cooking" and is longer'),
 'C12-b': ('C12', 'src/is_822_email.c: early DOMAIN_TOO_LONG guard before the local-part scan', 'mode 822 only, a domain part of 254 bytes or more'),
 'C13-b': ('C13', 'partial/idn2/eav.c eav_setup: two edits let utf8 and initialized desynchronise', 'history: setup(6531), setup(invalid rfc), setup(ASCII mode), then a non-ASCII address'),
 'C14-b': ('C14', 'src/is_tld.c: file-scope static one-entry cache', 'two threads validating TLDs of different classes concurrently'),
 'C15-b': ('C15', 'partial/idn2/eav.c: errcode EEAV_TLD_GENERIC recorded for class GENERIC_RESTRICTED', 'allow_tld without GENERIC_RESTRICTED, TLD biz/name/pro'),
 'C16-b': ('C16', 'partial/idn2/is_6531_email.c: is_domain set only for rc == 0 or rc > 1', 'mode 6531, tld_check on, a not-assigned TLD'),
 'C17-b': ('C17', 'src/is_6531_local.c: RFC20 character test hoisted with the guard !quote || qpair', 'RFC6531_FOLLOW_RFC20 build, mode 6531, an escaped RFC20 character inside a quoted string'),
 'C18-b': ('C18', 'partial/idnkit/eav.c: initialized not reset when the context is destroyed in eav_setup', 'idnkit build, history setup(6531), setup(ASCII), free (double destroy) or setup(6531) again (use after destroy)'),
 'C19-b': ('C19', 'partial/idn2/eav.c: idnmsg looked up lazily, only when still NULL', 'two consecutive IDN failures with different codes on one object'),
})
T.update({
 'C01-c': ('C01', 'partial/idn2/is_6531_email.c: pure-ASCII domains with tld_check off bypass is_utf8_domain and go to is_ascii_domain', 'mode 6531, tld_check off, an ASCII domain that is a valid host name but not a valid IDNA name (ab--cd.com, xn--a.com)'),
 'C02-c': ('C02', 'src/is_822_local.c: after a valid fold the rest of the white-space run is skipped with isspace(), which also swallows CR', 'mode 822, quoted string with a valid fold followed (after optional blanks) by a CR that does not start a fold'),
 'C04-c': ('C04', 'src/is_ascii_domain.c: the root dot is discounted twice in the total-length test', 'a domain of exactly 254 name characters plus the root dot (255 bytes)'),
 'C05-c': ('C05', 'src/is_ipv4_ipv6.c is_ipv4: octet value tested only when a dot follows (the fourth octet is never tested)', 'a dotted quad whose LAST octet is above 255'),
 'C06-c': ('C06', 'src/is_6531_local.c: the pos >= 1 guard of the look-behind start[prev] dropped (prev == -1)', 'mode 6531, a local part whose first byte is a dot: reads start[-1]'),
 'C07-c': ('C07', 'include/eav/private_email.h check_tld: strrchr replaced by a backward scan that stops at any non-alphanumeric byte', 'ASCII mode, tld_check on, a last label containing a hyphen (all xn-- TLDs)'),
 'C09-c': ('C09', 'src/is_special_domain.c: counting loop uses memchr over at most 63 bytes', 'a reserved suffix preceded by a label of exactly 63 bytes'),
 'C16-c': ('C16', 'src/is_5321_email.c (EAV_EXTRA): lpart copied with length ch - email', 'EAV_EXTRA build, mode 5321, accepted tagged IPv6 literal: lpart = "user@[IPv6"'),
})
T.update({
 'C03-c': ('C03', 'src/utf8_decode.c: surrogate upper limit written as 0xDBFF (low surrogates accepted)', 'mode 6531, a local part containing ED B0..BF xx'),
 'C04-d': ('C04', 'partial/idn2/is_utf8_domain.c: one root dot cut off the converted name before is_ascii_domain (which strips one itself)', 'mode 6531, a domain ending in exactly two dots'),
 'C08-c': ('C08', 'partial/idn2/eav.c: eav_is_email returns NO at once when errcode == EEAV_INVALID_RFC', 'history: a failed eav_setup, then a successful one, then any valid address'),
 'C12-c': ('C12', 'src/is_5322_local.c: the two dot tests swapped', 'mode 5322, a local part starting with two dots: code 11 instead of 12, decision unchanged'),
 'C13-c': ('C13', 'partial/idn2/eav.c eav_setup: frees the result after an IDN error when leaving 6531 but does not clear the pointer', 'history: 6531, an IDN-error result, eav_setup to an ASCII mode, then any call (double free)'),
 'C15-c': ('C15', 'include/eav/private_email.h check_ip: bre == NULL and trailing-text tests merged, both report BRACKET_UNPAIR', 'an address literal with paired brackets followed by more text'),
 'C18-c': ('C18', 'partial/idn/eav.c: GENERIC_RESTRICTED tested against the GENERIC bit (libidn back end only)', 'libidn build, allow_tld with exactly one of the two bits, TLD biz/name/pro'),
 'C19-c': ('C19', 'partial/idn2/is_utf8_domain.c: conversion failure detected by domain == NULL instead of the return code', 'an IDN failure that arrives together with an output buffer: treated as success'),
})
# round 9
T.update({
 'C01-d': ('C01', 'include/eav/private_email.h check_ip: tag compared with strncmp instead of strncasecmp', 'an address literal whose tag is a case variant of "IPv6:" ([ipv6:2001:db8::1]): rejected'),
 'C16-d': ('C16', 'include/eav/private_email.h check_ip: family of an untagged digit-led literal chosen by "contains a dot" instead of "contains a colon"', 'an accepted untagged IPv6 literal with a dotted-quad tail ([1::ffff:1.2.3.4]): flagged is_ipv4'),
 'C07-d': ('C07', 'src/is_tld.c: first octet compared case-sensitively before strncasecmp on the rest', 'a listed TLD whose first letter is upper case (iana.Org): invalid TLD in the ASCII modes'),
})
# round 8 (reject-side changes and the output part of the CLI)
T.update({
 'C04-e': ('C04', 'src/is_ascii_domain.c: label-length check added to the hyphen branch with an off-by-one bound', 'a 63-character label whose 62nd character is a hyphen: rejected as too long'),
 'C09-d': ('C09', 'src/is_special_domain.c: early return NO in the "example.<tld>" fast path when the tld is not 3 letters long', 'second-to-last label "example" and a reserved last label (example.test, a.Example.localhost): not special'),
 'C20-d': ('C20', 'bin/main.c parse_file: the FAIL record echoes sanitize_utf8(line, len) instead of sanitize_utf8(cp, len)', 'a rejected line that starts with a space: the echo regains the space and loses its last character'),
})
# round 7 (reject direction of is_ipv6)
T.update({
 'C05-d': ('C05', 'src/is_ipv4_ipv6.c is_ipv6: colon-count guard of the dotted-quad tail "tightened" (with "::", at most 5 colons before the quad)', 'a leading "::" followed by four groups and a dotted quad ([IPv6:::1:2:3:4:192.0.2.1], valid IPv6v4-comp): rejected'),
})
# round 6 (after C20 was claimed and the RFC6531_FOLLOW_RFC5322 job was built)
T.update({
 'C20-a': ('C20', 'bin/main.c parse_file: terminator stripping rewritten as two independent steps (LF, then CR): a lone CR at the end of a line is stripped too', 'a line that ends in CR without LF (last line of a file without final newline): the library is asked about the line without its last byte'),
 'C20-b': ('C20', 'bin/main.h sanitize_utf8: buffer grown geometrically (doubled once) instead of to the needed size', 'a line whose printable copy needs more than twice the current buffer (first line of 256+ bytes): heap overflow'),
 'C20-c': ('C20', 'bin/main.c parse_file epilogue: free(sanitized) added without resetting the static pointer', 'two or more file arguments with address lines: use after free / double free in the second file'),
 'C17-d': ('C17', 'src/is_6531_local.c (#ifdef RFC6531_FOLLOW_RFC5322): look-ahead test ch > 0x7f became ch >= 0x7f', 'RFC6531_FOLLOW_RFC5322 build, quoted whitespace directly followed by DEL: accepted, mode 5322 rejects'),
})
# round 10
T.update({
 'C06-d': ('C06', 'src/utf8_decode.c: cont() reads the_input[the_index++] directly instead of going through the bounds-checked get()',
           'is_6531_local on a string that ends in a truncated 3- or 4-byte sequence ("ab\\xE2", "ab\\xF0"): reads 1-2 bytes past the terminator; the return value is unchanged'),
 'C10-c': ('C10', 'src/is_special_domain.c: the "example" label compared with memcmp (case-sensitive) instead of strncasecmp',
           'an upper-case EXAMPLE second-level label (user@EXAMPLE.com, user@XN--BCHER-KVA.EXAMPLE.COM): mode 6531 (libidn2 lower-cases) says SPECIAL, the ASCII modes say GENERIC'),
 'C11-c': ('C11', 'src/auto_tld.c: row "bq" hand-edited from TLD_TYPE_NOT_ASSIGNED to TLD_TYPE_COUNTRY_CODE',
           'a lookup of the one TLD bq (CSV: country-code with manager "Not assigned")'),
})
# round 11
T.update({
 'C03-d': ('C03', 'src/utf8_decode.c: 4-byte lead test (c & 0xF8) == 0xF0 became (c & 0xF0) == 0xF0 (lead bytes F8..FF decode as F0..F7)',
           'mode 6531, a byte 0xF8 followed by three continuation bytes encoding U+10000..U+3FFFF (a.\\xF8\\x90\\x80\\x80.b): ill-formed UTF-8 accepted'),
 'C12-d': ('C12', 'src/is_5321_email.c: host-name / address-literal dispatch tests the closing bracket (end[-1] != \']\') instead of the opening one',
           'mode 5321 only, a domain with a one-sided bracket: a@x1.2.3.4] accepted as IPv4 literal; a@[1.2.3.4 reports another code than the other modes'),
 'C13-d': ('C13', 'partial/idn2/eav.c: eav_is_email picks the validator by eav->rfc == EAV_RFC_6531 instead of eav->utf8',
           'history: eav_setup(822), eav_setup(6531), write rfc = EAV_RFC_822 WITHOUT eav_setup, validate an address with a UTF-8 local part'),
 'C19-d': ('C19', 'partial/idn2/is_utf8_domain.c: IDN2_ENCODING_ERROR reported as EEAV_DOMAIN_INVALID_CHAR instead of EEAV_IDN_ERROR',
           'mode 6531, a domain that is not valid UTF-8 (a@ex\\xC3mple.com): one IDN error code out of many'),
})
# round 12
T.update({
 'C08-d': ('C08', 'partial/idn2/eav.c: case TLD_TYPE_INFRASTRUCTURE tests the EAV_TLD_SPONSORED bit',
           'a .arpa host name (the only infrastructure TLD) and an allow_tld mask in which the INFRASTRUCTURE and SPONSORED bits differ'),
 'C15-d': ('C15', 'src/is_5321_local.c: non-ASCII test ch > 127 became ch >= 0x7f (DEL reported as non-ASCII)',
           'mode 5321, a DEL byte in the local part: still rejected, but with EEAV_LPART_NOT_ASCII instead of EEAV_LPART_CTRL_CHAR'),
 'C16-e': ('C16', 'include/eav/private_email.h check_ip(): untagged-IPv6 test strchr(email, \':\') instead of strchr(brs + 1, \':\')',
           'an accepted address with a quoted local part containing a colon and an IPv4 literal ("a:b"@[192.168.10.1]): flagged is_ipv6'),
})
for sid, (prop, change, needs) in T.items():
    d = os.path.join(S, sid)
    if not os.path.isdir(d):
        continue
    runs = []
    for lg in sorted(glob.glob(os.path.join(d, 'check_*.log'))):
        txt = open(lg, errors='replace').read()
        p = re.search(r'check_(C\d+)\.log', lg).group(1)
        vio = [l for l in txt.split('\n') if l.startswith('VIOLATION')]
        fo = [l[:260] for l in txt.split('\n') if l.startswith('FAILED-OBLIGATION')][:4]
        und = [l[:200] for l in txt.split('\n') if l.startswith('UNDECIDED')][:3]
        ok = [l for l in txt.split('\n') if l.startswith('OK property')]
        runs.append(dict(check=p, command='tools/run_seed.sh %s %s  (scratch worktree of /repo with patch.diff applied; VERIF_REPO points at it)' % (sid, p),
                         outcome='VIOLATION' if vio else ('undecided (exit 2)' if und else ('passed - NOT caught' if ok else 'error')),
                         violation_lines=vio[:3], failed_obligations=fo, undecided=und))
    meta = dict(seed=sid, breaks_property=prop, change=change, needs_to_manifest=needs,
                origin='written by an independent sub-agent that saw only the property text and its own worktree',
                validated='tools/validate_seed.sh: applies, builds without warnings, `make check` exit 0 with the change, demo exits 0 on the unchanged tree and non-zero on the changed one',
                check_runs=runs)
    if sid in ('C20-a', 'C20-b', 'C20-c', 'C20-d'):
        meta['validated'] = 'confirmed in the sub-agent\'s worktree before it was removed: `make check` exit 0 (37 test programs PASS) with the change; demo.sh (builds bin/eav, runs it on the trigger input natively / under valgrind) shows the violation and a control input shows none'
    if sid == 'C17-d':
        meta['validated'] = 'confirmed in the sub-agent\'s worktree before it was removed: `make clean check` exit 0 in the default build and with RFC6531_FOLLOW_RFC5322=ON; demo.c compiled with -DRFC6531_FOLLOW_RFC5322 prints different verdicts of is_5322_local / is_6531_local for "abc \\x7f"'
    NOTES = {
        'C05-a': 'quick tier: UNDECIDED (exit 2) - the is_ipv6 job runs into the quick time budget / 30 GB on this change; the log kept here is the thorough-tier run (tools/run_seed.sh C05-a C05 --tier thorough --only is_ipv6), which refutes strspn.assertion.1 after 38 minutes',
        'C09-b': 'missed (check passed, exit 0) by the machinery as it was when the seed was written; the contract gap it exposed was closed (DESIGN.md 11.4) and the log kept here is the run after that',
        'C17-b': 'missed (check passed, exit 0) by the machinery as it was when the seed was written; the contract gap it exposed was closed (DESIGN.md 11.4) and the log kept here is the run after that',
        'C20-a': 'missed (check passed) by the first version of job cli_parse_line: its strlen model returned the EXPECTED length instead of the position of a NUL in the buffer as the body left it, so a NUL written in the wrong place went unnoticed; the model now returns a prophesied index at which there is a NUL and the obligations say that this place is the terminator or a NUL of the line as read; the bounded jobs got an exact strlen.  The log kept here is the run after that',
        'C05-d': 'missed (check passed) twice: by the machinery as it was when the seed was written (no obligation justified an early NO of is_ipv6), and by the first version of the reject-direction postcondition, in which a dot counted as a dead step of the hex-group automaton and so justified every NO at a dot; a dot is now justified only where no dotted quad may start.  The log kept here is the run after that',
        'C01-d': 'missed by C01\'s quick tier as it was when the seed was written (the address-literal jobs were in its thorough tier; the C05 check, whose quick tier has them, refuted it: is_822_email.postcondition.14); the four literal jobs were moved into C01\'s quick tier.  The replay oracle leaves the case of the tag open (the property writes the tag as \'IPv6:\'; RFC 5321 ABNF literals are case-insensitive), hence no-failing-input-found',
        'C12-c': 'missed (check passed) by the machinery as it was when the seed was written: the conditions of the two dot codes overlapped for a leading double dot; the contracts now tell them apart by position and the log kept here is the run after that',
        'C15-c': 'missed by C15\'s quick tier as it was when the seed was written (no address-literal job in it; the C05/C16 checks did refute it); email_822_literal was added to C15\'s quick tier',
        'C01-c': 'verifier undecided (new loop without contract); reported as VIOLATION through the replay-oracle fallback once the oracle had a 6531 e-mail kind (concrete input u@d.xn--0, tld_check off)',
        'C02-c': 'verifier undecided (new loop without contract); reported as VIOLATION through the replay-oracle fallback (concrete input, see replays/)',
        'C07-c': 'verifier undecided (new loop without contract); reported as VIOLATION through the replay-oracle fallback (concrete input, see replays/)',
        'C16-c': 'caught by the thorough tier only (EAV_EXTRA jobs): tools/run_seed.sh C16-c C16 --tier thorough --only email_5321_literal+extra,email_5321_host+extra',
    }
    if sid in NOTES:
        meta['note'] = NOTES[sid]
    json.dump(meta, open(os.path.join(d, 'meta.json'), 'w'), indent=1, ensure_ascii=False)
    print(sid, prop, [r['outcome'] for r in runs])
