#!/bin/bash
# validate_seed.sh <name> <dir-with-patch.diff-and-demo.c>: confirm in a scratch worktree of /repo that the change
# (1) applies and compiles, (2) passes the existing test suite, (3) makes the demo fail while the unchanged tree passes it.
set -u
name=$1; src=$2
wt=/tmp/val_$name
git -C /repo worktree remove --force $wt >/dev/null 2>&1
git -C /repo worktree add -q --detach $wt HEAD || exit 2
cd $wt
res=""
make >/dev/null 2>&1 || { echo "base build failed"; exit 2; }
gcc -w -Iinclude -DHAVE_LIBIDN2 -D_DEFAULT_SOURCE $src/demo.c libeav.a -lidn2 ${DEMO_FLAGS:-} -o /tmp/val_demo_$name 2>/tmp/val_cc_$name.log || { echo "demo does not compile on base: $(head -3 /tmp/val_cc_$name.log)"; }
/tmp/val_demo_$name >/dev/null 2>&1; base_demo=$?
git apply $src/patch.diff || { echo "patch does not apply"; git -C /repo worktree remove --force $wt; exit 2; }
make clean >/dev/null 2>&1; make > /tmp/val_build_$name.log 2>&1; build=$?
warns=$(grep -ci "warning" /tmp/val_build_$name.log)
make check > /tmp/val_check_$name.log 2>&1; tests=$?
gcc -w -Iinclude -DHAVE_LIBIDN2 -D_DEFAULT_SOURCE $src/demo.c libeav.a -lidn2 ${DEMO_FLAGS:-} -o /tmp/val_demo_$name 2>/dev/null
/tmp/val_demo_$name > /tmp/val_demo_out_$name.log 2>&1; mut_demo=$?
echo "seed=$name build=$build warnings=$warns tests_exit=$tests demo_on_base=$base_demo demo_on_mutant=$mut_demo"
cd /; git -C /repo worktree remove --force $wt; rm -f /tmp/val_demo_$name
