#!/usr/bin/env python3
"""Generate spec_tld.h from /repo/data/punycode.csv (run on every check, output in the run's work dir).

The class rule is the one stated in property C11: manager starting with 'Not assigned' -> not-assigned,
starting with 'Retired' -> retired, otherwise the row's IANA type.  Rows are emitted sorted by name
(byte order) so that the CBMC job can look a table row up by binary search; nothing else is derived.
"""
import csv, sys, os
TYPES = {'generic': 'TLD_TYPE_GENERIC', 'country-code': 'TLD_TYPE_COUNTRY_CODE',
         'generic-restricted': 'TLD_TYPE_GENERIC_RESTRICTED', 'infrastructure': 'TLD_TYPE_INFRASTRUCTURE',
         'test': 'TLD_TYPE_TEST', 'sponsored': 'TLD_TYPE_SPONSORED'}


def rows(path):
    with open(path, newline='', encoding='utf-8') as f:
        r = csv.reader(f)
        next(r)
        for row in r:
            if not row:
                continue
            yield row[0], row[1], row[2]


def cls(typ, mgr):
    m = mgr.lower()
    if m.startswith('not assigned'):
        return 'TLD_TYPE_NOT_ASSIGNED'
    if m.startswith('retired'):
        return 'TLD_TYPE_RETIRED'
    return TYPES[typ]


def main(repo, out):
    rs = [(d, cls(t, m)) for d, t, m in rows(os.path.join(repo, 'data/punycode.csv'))]
    names = [d for d, _ in rs]
    dup = len(names) - len(set(names))
    rs.sort(key=lambda x: x[0].encode())
    with open(out, 'w') as f:
        f.write('/* generated from data/punycode.csv by tools/csv2spec.py -- do not edit */\n')
        f.write('#ifndef SPEC_TLD_H\n#define SPEC_TLD_H\n')
        f.write('#define SPEC_NTLD %d\n#define SPEC_CSV_DUPLICATES %d\n' % (len(rs), dup))
        f.write('#define SPEC_MAXNAME %d\n' % max(len(d) for d, _ in rs))
        f.write('static const struct { const char *name; int cls; } spec_tld[SPEC_NTLD] = {\n')
        for d, c in rs:
            assert all(32 < ord(ch) < 127 and ch not in '"\\' for ch in d), d
            f.write('  { "%s", %s },\n' % (d, c))
        f.write('};\n#endif\n')
    return len(rs)


if __name__ == '__main__':
    print(main(sys.argv[1], sys.argv[2]))
