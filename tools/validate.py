#!/usr/bin/env python3
"""validate MANIFEST.json and evidence files against the schemas (uses the tooling venv's jsonschema when present)"""
import json, sys, glob, os
try:
    import jsonschema
except ImportError:
    sys.path.insert(0, '/opt/veriftools/pyvenv/lib/python3.11/site-packages')
    import glob as g
    for p in g.glob('/opt/veriftools/pyvenv/lib/python3*/site-packages'):
        sys.path.insert(0, p)
    import jsonschema
ok = True
m = json.load(open('/verif/MANIFEST.json')) if os.path.exists('/verif/MANIFEST.json') else None
if m is not None:
    jsonschema.validate(m, json.load(open('/root/.vp/MANIFEST.schema.json'))); print('MANIFEST ok,', len(m['checks']), 'checks')
es = json.load(open('/root/.vp/EVIDENCE.schema.json'))
for f in sorted(glob.glob('/verif/evidence/*.json')):
    try:
        jsonschema.validate(json.load(open(f)), es); print(os.path.basename(f), 'ok')
    except Exception as e:
        ok = False; print(os.path.basename(f), 'INVALID', str(e)[:300])
sys.exit(0 if ok else 1)
