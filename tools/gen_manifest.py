#!/usr/bin/env python3
"""Regenerate /verif/MANIFEST.json from vlib/props.py (single source of truth for what is claimed)."""
import json, os, sys
sys.path.insert(0, '/verif')
from vlib import props
allp = [json.loads(l)['id'] for l in open('/verif/properties.jsonl')]
checks, na = [], []
for pid in allp:
    P = props.PROPS.get(pid)
    if not P:
        na.append(dict(property_id=pid, reason=props.NOT_APPLICABLE.get(pid, 'check not built yet (work in progress); nothing is claimed for this property')))
        continue
    c = dict(property_id=pid,
             quick_cmd='./check %s --tier quick' % pid,
             thorough_cmd='./check %s --tier thorough' % pid,
             evidence_file='evidence/%s.json' % pid,
             replay_cmd_template='./check %s --replay {path}' % pid,
             engine='cbmc-contracts',
             level_claimed=dict(category=P['level'], text=P['level_text'], design_ref=P.get('design_ref', 'DESIGN.md section 7 / ' + pid)),
             level_note=P['level_note'],
             technique=P.get('technique', 'CBMC code contracts (goto-instrument --dfcc --enforce-contract, loop contracts) on the real source files'))
    checks.append(c)
m = dict(version=1,
         setup_cmd='./setup.sh',
         hooks=dict(guard='LIBEAV_VERIF',
                    enable='jobs compile /repo\'s own source files with goto-cc -DLIBEAV_VERIF -I/verif/contracts (include/eav/verif_hooks.h then maps EAV_VERIF_LOOP/STEP/AT to the loop contracts and ghost updates of /verif/contracts)',
                    baseline_off_cmd='make -C /repo clean all check',
                    source_commits=props.HOOK_COMMITS,
                    add_only=False),
         engines=[dict(name='cbmc-contracts', path='/verif/check', serves_properties=[c['property_id'] for c in checks],
                       kind_free_text='contract-based deductive verification: CBMC 6.11 code contracts (DFCC) + loop contracts on the real /repo translation units; SAT back ends cadical/minisat2')],
         checks=checks,
         notes=props.NOTES,
         not_applicable=na)
json.dump(m, open('/verif/MANIFEST.json', 'w'), indent=1)
print('wrote MANIFEST.json:', len(checks), 'checks,', len(na), 'not applicable')
