"""Job and property tables."""
import os, subprocess
from .driver import Job, VERIF, REPO

A1 = 'A1: C-locale character classification for bytes 0..127 (CBMC built-in isdigit/isalnum/iscntrl models, isascii one-line model)'
A2 = 'A2: malloc does not fail (--no-malloc-may-fail); the properties say "allocation failure aside"'
A7 = 'A7: assumed contract of the IDN library (return code arbitrary; output buffer fresh and NUL-terminated on success; *_strerror returns the library string for the code); nothing about IDNA itself is proved'
A9 = 'A9: machine arithmetic is bit-precise LP64; "every length" means every length up to the object-size bound stated in the contract'

CBS = ['is_822_email', 'is_5321_email', 'is_5322_email', 'is_6531_email']
BACKENDS = {'idn2': ['-DHAVE_LIBIDN2'], 'idn': ['-DHAVE_LIBIDN'], 'idnkit': ['-DHAVE_IDNKIT']}

JOBS = {}


def add(job):
    assert job.name not in JOBS, job.name
    JOBS[job.name] = job
    return job


for be, defs in BACKENDS.items():
    sfx = '' if be == 'idn2' else '@' + be
    add(Job('eav_is_email' + sfx, 'harness/eav_is_email.c', enforce='eav_is_email', replace=CBS, defines=defs,
            expect=['postcondition', 'assigns'], reach=4, timeout=600, backend=be,
            functions=['eav_is_email', 'eav_result_free (inlined)'], files=['partial/%s/eav.c' % be, 'src/eav.c'],
            assumptions=[A2, A7, A9],
            note='loop-free: complete over all 2^32 allow_tld masks, every callback result in (-EEAV_MAX, TLD_TYPE_MAX), every prior object state'))

# ---- local-part scanners (loop contracts + ghost specification automaton)
for fn, t in (('is_822_local', 1500), ('is_5321_local', 900), ('is_5322_local', 900)):
    add(Job(fn, 'harness/%s.c' % fn, enforce=fn, loops=True, timeout=t, reach=3,
            expect=['postcondition', 'loop_invariant_base', 'loop_invariant_step', 'loop_decreases', 'assigns'],
            functions=[fn], files=['src/%s.c' % fn], assumptions=[A1, A9],
            note='input length symbolic, g_len <= 2^40; both directions against spec/spec_local.h'))
add(Job('is_6531_local', 'harness/is_6531_local.c', enforce='is_6531_local', loops=True, timeout=2400, reach=3,
        extra_sources=['src/utf8_decode.c'],
        expect=['postcondition', 'loop_invariant_base', 'loop_invariant_step', 'loop_decreases', 'assigns'],
        functions=['is_6531_local', 'utf8_decode_init/next/at_byte (inlined)'], files=['src/is_6531_local.c', 'src/utf8_decode.c'],
        assumptions=[A1, A9], note='g_len <= 2^31-16 (the decoder stores lengths in int)'))
add(Job('is_6531_local+wf', 'harness/is_6531_local.c', enforce='is_6531_local', loops=True, timeout=3000, reach=3, defines=['-DWF_POST'], solvers=('minisat2+ra',), mem_est=4,
        extra_sources=['src/utf8_decode.c'],
        expect=['postcondition', 'loop_invariant_base', 'loop_invariant_step', 'loop_decreases', 'assigns'],
        functions=['is_6531_local', 'utf8_decode_init/next/at_byte (inlined)'], files=['src/is_6531_local.c', 'src/utf8_decode.c'],
        assumptions=[A1, A9], note='the contract of job is_6531_local plus: EEAV_LPART_INVALID_UTF8 => no well-formed UTF-8 sequence (Unicode Table 3-7) starts at the position reached (four more reads of the input; 12 min with --refine-arrays, out of memory without); thorough tier'))
add(Job('utf8_decode_next', 'harness/utf8_decode_next.c', enforce='utf8_decode_next', timeout=600, reach=3,
        expect=['postcondition', 'assigns'], functions=['utf8_decode_next', 'get, cont (inlined)'], files=['src/utf8_decode.c'],
        assumptions=[A9], note='loop-free: complete for every byte tuple at every offset; Unicode Table 3-7'))
add(Job('is_ascii_domain', 'harness/is_ascii_domain.c', enforce='is_ascii_domain', loops=True, timeout=900, reach=3,
        expect=['postcondition', 'loop_invariant_base', 'loop_invariant_step', 'loop_decreases', 'assigns'],
        functions=['is_ascii_domain'], files=['src/is_ascii_domain.c'], assumptions=[A1, A9],
        note='g_len <= 2^31-16; both directions against spec/spec_host.h'))

# ---- e-mail functions: composition with every callee replaced by its recording contract;
#      the proof is split by input class (host-name path incl. all "no split" cases / address-literal path)
EMAIL_CALLEES = ['is_822_local', 'is_5321_local', 'is_5322_local', 'is_6531_local', 'is_ascii_domain', 'is_utf8_domain',
                 'is_special_domain', 'is_tld', 'is_ipaddr', 'is_ipv6', 'is_ipv4']
A3 = 'A3: strrchr/strchr models answer from ghost indices constrained pointwise (s[k]==c); that the index is the last/first occurrence is the libc semantics, assumed; no interior NUL (premise of the properties)'
A6 = 'A6: strncasecmp oracle models assert which operands/length they are given and answer from a ghost; their meaning (ASCII case-insensitive equality) is glibc C-locale semantics'
EMAIL_JOBS = []
for mode in ('822', '5321', '5322'):
    for path in ('HOST', 'LITERAL'):
        n = 'email_%s_%s' % (mode, path.lower())
        add(Job(n, 'harness/email_ascii.c', enforce='is_%s_email' % mode, replace_candidates=EMAIL_CALLEES,
                defines=['-DEMAIL_MODE=' + mode, '-DPATH_' + path, '-DHAVE_LIBIDN2'], timeout=900, reach=4,
                expect=['postcondition', 'assigns'], functions=['is_%s_email' % mode],
                files=['src/is_%s_email.c' % mode, 'include/eav/private_email.h'], assumptions=[A1, A2, A3, A6, A9],
                note='input class: ' + ('address does not reach the address-literal branch' if path == 'HOST' else "L@[...: domain starts with '['") + '; g_len <= 2^40'))
        EMAIL_JOBS.append(n)
for be, defs in BACKENDS.items():
    sfx = '' if be == 'idn2' else '@' + be
    for path in ('HOST', 'LITERAL'):
        n = 'email_6531_%s%s' % (path.lower(), sfx)
        add(Job(n, 'harness/email_6531.c', enforce='is_6531_email', replace_candidates=EMAIL_CALLEES,
                defines=['-DPATH_' + path] + defs, timeout=900, reach=4, backend=be,
                expect=['postcondition', 'assigns'], functions=['is_6531_email'],
                files=['partial/%s/is_6531_email.c' % be, 'include/eav/private_email.h'], assumptions=[A1, A2, A3, A6, A9]))
        if be == 'idn2':
            EMAIL_JOBS.append(n)

# ---- the rest of the high-level API, per back end
API_REACH = {'eav_init': 1, 'eav_setup': 3, 'eav_free': 1, 'eav_errstr': 2, 'eav_result_free': 1}
for be, defs in BACKENDS.items():
    sfx = '' if be == 'idn2' else '@' + be
    for fn in ('eav_init', 'eav_setup', 'eav_free', 'eav_errstr', 'eav_result_free'):
        add(Job(fn + sfx, 'harness/eav_api.c', enforce=fn, defines=defs + ['-DJOB_' + fn], timeout=300, reach=API_REACH[fn],
                expect=['postcondition'] + ([] if fn in ('eav_errstr', 'eav_result_free') else ['assigns']), backend=be, functions=[fn],
                files=['partial/%s/eav.c' % be, 'src/eav.c'], assumptions=[A2, A7],
                note='loop-free: complete for every pre-state of the object'))

for be, defs in BACKENDS.items():
    sfx = '' if be == 'idn2' else '@' + be
    add(Job('is_utf8_domain' + sfx, 'harness/is_utf8_domain.c', enforce='is_utf8_domain', replace=['is_ascii_domain', 'is_special_domain', 'is_tld'],
            defines=defs, timeout=600, reach=4 if be != 'idnkit' else 3, leak=(be != 'idnkit'), backend=be, expect=['postcondition', 'assigns'],
            functions=['is_utf8_domain'], files=['partial/%s/is_utf8_domain.c' % be], assumptions=[A2, A3, A7, A9],
            note='IDN conversion modelled by its assumed contract: every return code; on failure a buffer may or may not have been produced'))

A_TABLE = 'constant evaluation of the finite table: no symbolic input, every loop fully unwound with unwinding assertions (exact, not bounded)'
add(Job('tld_table', 'harness/tld_table.c', no_dfcc=True, unwind=1600, object_bits=13, timeout=1500, expect=['assertion'], reach=0,
        functions=['tld_list[] (data)'], files=['src/auto_tld.c', 'data/punycode.csv'], assumptions=[A_TABLE],
        solvers=('minisat2',), note='spec_tld.h regenerated from data/punycode.csv by tools/csv2spec.py on every run'))
add(Job('is_tld', 'harness/is_tld.c', enforce='is_tld', loops=True, object_bits=13, timeout=900, reach=2,
        expect=['postcondition', 'loop_invariant_base', 'loop_invariant_step', 'loop_decreases'],
        functions=['is_tld'], files=['src/is_tld.c', 'src/auto_tld.c'], assumptions=[A6, A9],
        note='loop contract over the real 1591-row table; label length <= 254 (guaranteed by is_ascii_domain at every call site)'))

A5 = 'A5: strspn models: is_ipv4 uses strspn(start,"0.") for its truth value only (both outcomes explored); is_ipv6 uses strspn(cp,hexdigits) with pointwise facts for the first five positions'
add(Job('is_ipv4', 'harness/is_ipv4.c', enforce='is_ipv4', loops=True, timeout=1200, reach=3,
        expect=['postcondition', 'loop_invariant_base', 'loop_invariant_step', 'loop_decreases', 'assigns'],
        functions=['is_ipv4'], files=['src/is_ipv4_ipv6.c'], assumptions=[A1, A5, A9],
        note='g_len <= 2^31-16; precondition from the call sites: the closing bracket follows the address'))
add(Job('is_ipv6', 'harness/is_ipv6.c', enforce='is_ipv6', replace=['is_ipv4'], timeout=3000, reach=4, mem_est=24, mem_gb=30, solvers=('minisat2',),
        unwindset=[('is_ipv6_wrapped_for_contract_checking.0', 18)],
        expect=['postcondition', 'assigns', 'unwind'], functions=['is_ipv6'], files=['src/is_ipv4_ipv6.c'], assumptions=[A1, A5, A9],
        bounded='input length <= 45 bytes (fixed 46-byte object); within that bound the loop is fully unwound (18, unwinding assertion discharged), so the result is complete for all inputs up to 45 bytes and says nothing about longer ones',
        note='no loop invariant: the loop runs <= 17 times (unwinding assertion is an obligation). A length lemma for longer inputs (design-probes/is_ipv6_len_attempt.c) ran out of memory and is not part of the claim'))
add(Job('is_ipv6_anylen', 'harness/is_ipv6.c', enforce='is_ipv6', replace=['is_ipv4'], timeout=6000, reach=4, mem_est=22, mem_gb=30, solvers=('minisat2+ra',), defines=['-DIPV6_ANYLEN'],
        unwindset=[('is_ipv6_wrapped_for_contract_checking.0', 18)],
        expect=['postcondition', 'assigns', 'unwind'], functions=['is_ipv6'], files=['src/is_ipv4_ipv6.c'], assumptions=[A1, A5, A9],
        note='the same contract as job is_ipv6 with an input of every length (object of g_len+1 bytes, g_len <= 2^31-16): the loop runs <= 17 times whatever the length (unwinding assertion is an obligation), so this is not a bounded result. 46 min / 18 GB (23 min before the reject direction was added to the contract) with array constraints added on demand (--refine-arrays); thorough tier only'))
add(Job('is_ipaddr', 'harness/is_ipaddr.c', enforce='is_ipaddr', replace=['is_ipv4', 'is_ipv6'], timeout=300, reach=2,
        expect=['postcondition', 'assigns'], functions=['is_ipaddr'], files=['src/is_ipv4_ipv6.c'], assumptions=[A3, A9]))

A4 = 'A4: strchr(p,".") answers from the ghost dot-rank function of the input (pointwise facts); four derived facts about ranks are assumed at each call and proved from the step axiom in job lemma_rank'
SP_HELPER_LOOPS = [('is_special_domain.%d' % k, 7) for k in (1, 2, 4, 5, 6, 7)]   # CHECK() macro loops (<= 5 entries) and their do-while(0)
add(Job('is_special_domain_A', 'harness/is_special_domain.c', enforce='is_special_domain', loops=True, defines=['-DJOB_A'], timeout=2400, reach=0, mem_est=8, solvers=('minisat2',),
        pre_unwind=SP_HELPER_LOOPS, expect=['loop_invariant_base', 'loop_invariant_step', 'loop_decreases', 'assertion'],
        functions=['is_special_domain (counting and skipping loops)'], files=['src/is_special_domain.c'], assumptions=[A4, A9],
        note='domain length 1..253 (guaranteed by is_ascii_domain at every call site), no root dot (premise of C09)'))
add(Job('is_special_domain_B', 'harness/is_special_domain.c', enforce='is_special_domain', loops=True, defines=['-DJOB_B'], timeout=4200, reach=4, mem_est=20, solvers=('minisat2',),
        pre_unwind=SP_HELPER_LOOPS, expect=['postcondition', 'loop_invariant_step', 'assertion'],
        functions=['is_special_domain (verdict after the cut)'], files=['src/is_special_domain.c'], assumptions=[A4, A6, A9,
            'cut facts (no-dot shortcut iff no dot; cursor at the second-to-last label) are assumed here and are the obligations of job is_special_domain_A'],
        note='recording memcpy, oracle strncasecmp asserting operands and length of every comparison'))

def _static_scan(job, r):
    import importlib.util
    spec = importlib.util.spec_from_file_location('static_scan', os.path.join(VERIF, 'tools', 'static_scan.py'))
    m = importlib.util.module_from_spec(spec); spec.loader.exec_module(m)
    inc = ['-I' + VERIF + '/stubs/include']
    res = []
    for be, defs in BACKENDS.items():
        res += [dict(x, backend=be) for x in m.scan(REPO, be, defs, inc)]
    seen = set()
    for x in res:
        key = (x['file'], x['symbol'])
        if key in seen:
            continue
        seen.add(key)
        r.obligations.append(dict(name='static_scan.%s.%s' % (x['file'], x['symbol']),
                                  description='SAFETY: static-lifetime object %s in %s is const-qualified (type: %s)' % (x['symbol'], x['file'], x['type']),
                                  status='SUCCESS' if x['const'] else 'FAILURE', file=x['file'], line='', function=''))
    r.backend = 'goto symbol table scan (supporting static fact, not a CBMC proof obligation)'
    r.cmds.append('tools/static_scan.py: goto-cc -c <each library TU>; goto-instrument --show-symbol-table')
    if not r.obligations:
        r.status = 'undecided'; r.reason = 'symbol scan found no static-lifetime symbol at all (tld_list expected)'
    else:
        r.status = 'failed' if r.failed else 'proved'


add(Job('static_scan', 'tools/static_scan.py', pyfunc=_static_scan, timeout=300,
        functions=['all static-lifetime symbols of src/*.c and partial/*/*.c'], files=['src', 'partial'],
        note='supporting static fact: every static-lifetime object of the library is const (no shared mutable state)'))
for be, defs in BACKENDS.items():
    sfx = '' if be == 'idn2' else '@' + be
    add(Job('lifecycle' + sfx, 'harness/lifecycle.c', no_dfcc=True, leak=True, defines=defs, timeout=600, reach=1, backend=be,
            expect=['assertion', 'memory-leak'], functions=['eav_init', 'eav_setup', 'eav_is_email', 'eav_errstr', 'eav_free', 'eav_result_free'],
            files=['partial/%s/eav.c' % be, 'src/eav.c'], assumptions=[A2, A7],
            note='no contracts: real functions inlined on one symbolic history (4 validations, 2 init/free cycles); complete for that history shape, all settings symbolic'))
# ---- C06 variants of the scanner jobs: safety-only contracts and invariants (no ghost automaton), so that the
#      memory-safety / termination / frame proof does not depend on the functional specification
SAFE_JOBS = []
for fn, src in (('is_822_local', 'src/is_822_local.c'), ('is_5321_local', 'src/is_5321_local.c'), ('is_5322_local', 'src/is_5322_local.c'),
                ('is_ascii_domain', 'src/is_ascii_domain.c'), ('is_ipv4', 'src/is_ipv4_ipv6.c')):
    add(Job('safe_' + fn, 'harness/%s.c' % fn, enforce=fn, loops=True, defines=['-DSAFETY_ONLY'], timeout=900, reach=1,
            expect=['loop_invariant_base', 'loop_invariant_step', 'loop_decreases', 'postcondition'],
            functions=[fn], files=[src], assumptions=[A1, A9] + ([A5] if fn == 'is_ipv4' else []),
            note='safety-only contract: pointer validity incl. look-behind/look-ahead, no overflow, frame (assigns nothing visible), variant end-cp (linear termination), result range'))
    SAFE_JOBS.append('safe_' + fn)
# ---- C17: option builds
add(Job('is_6531_local+rfc20', 'harness/is_6531_local.c', enforce='is_6531_local', loops=True, timeout=2400, reach=3, defines=['-DRFC6531_FOLLOW_RFC20'],
        extra_sources=['src/utf8_decode.c'], expect=['postcondition', 'loop_invariant_base', 'loop_invariant_step', 'loop_decreases', 'assigns'],
        functions=['is_6531_local (RFC6531_FOLLOW_RFC20 build)'], files=['src/is_6531_local.c', 'src/utf8_decode.c'], assumptions=[A1, A9]))
add(Job('is_6531_local+rfc5322', 'harness/is_6531_local_rfc5322.c', enforce='is_6531_local', loops=True, timeout=2400, reach=4, defines=['-DRFC6531_FOLLOW_RFC5322'],
        extra_sources=['src/utf8_decode.c'], expect=['postcondition', 'loop_invariant_base', 'loop_invariant_step', 'loop_decreases', 'assigns'], mem_est=3,
        solvers=('minisat2+ra',),
        functions=['is_6531_local (RFC6531_FOLLOW_RFC5322 build)', 'utf8_decode_init/next/at_byte (inlined)'], files=['src/is_6531_local.c', 'src/utf8_decode.c'], assumptions=[A1, A9],
        note='option build: while only ASCII characters have been read the scanner follows the RFC 5322 specification automaton (the one job is_5322_local is proved against), both directions; accept => the whole input is well-formed UTF-8'))
add(Job('is_ascii_domain+underscore', 'harness/is_ascii_domain.c', enforce='is_ascii_domain', loops=True, timeout=900, reach=3, defines=['-DLABELS_ALLOW_UNDERSCORE'],
        expect=['postcondition', 'loop_invariant_base', 'loop_invariant_step', 'loop_decreases', 'assigns'],
        functions=['is_ascii_domain (LABELS_ALLOW_UNDERSCORE build)'], files=['src/is_ascii_domain.c'], assumptions=[A1, A9]))


def _options_scan(job, r):
    """text facts for C17: the three option macros are used only where the property says they act, and the Makefiles default them OFF"""
    import re, glob
    opts = {'RFC6531_FOLLOW_RFC20': {'src/is_6531_local.c'}, 'RFC6531_FOLLOW_RFC5322': {'src/is_6531_local.c'}, 'LABELS_ALLOW_UNDERSCORE': {'src/is_ascii_domain.c'}}
    files = []
    for pat in ('src/*.c', 'src/*.h', 'include/*.h', 'include/eav/*.h', 'partial/*/*.c'):
        files += glob.glob(os.path.join(REPO, pat))
    for opt, allowed in opts.items():
        users = set()
        for f in files:
            if re.search(r'\b%s\b' % opt, open(f, errors='replace').read()):
                users.add(os.path.relpath(f, REPO))
        ok = users <= allowed and users
        r.obligations.append(dict(name='options_scan.%s.users' % opt, description='option %s is referenced only in %s (found: %s)' % (opt, sorted(allowed), sorted(users)),
                                  status='SUCCESS' if ok else 'FAILURE', file='', line='', function=''))
        mk = open(os.path.join(REPO, 'Makefile')).read()
        dflt = re.search(r'ifndef %s\s*\nexport %s = OFF' % (opt, opt), mk) is not None
        maps = re.search(r'ifeq \(\$\(%s\),ON\)\s*\nCPPFLAGS \+= -D%s\b' % (opt, opt), mk) is not None
        r.obligations.append(dict(name='options_scan.%s.makefile' % opt, description='Makefile: %s defaults to OFF and ON maps to -D%s' % (opt, opt),
                                  status='SUCCESS' if (dflt and maps) else 'FAILURE', file='Makefile', line='', function=''))
    r.backend = 'text scan (supporting static fact, not a CBMC proof obligation)'
    r.cmds.append('vlib/props.py:_options_scan (regular expressions over /repo sources and Makefile)')
    r.status = 'failed' if r.failed else 'proved'


add(Job('options_scan', 'vlib/props.py', pyfunc=_options_scan, timeout=60, functions=['option macros'], files=['Makefile', 'src'],
        note='supporting text fact'))
add(Job('safe_is_6531_local', 'harness/is_6531_local.c', enforce='is_6531_local', loops=True, defines=['-DSAFETY_ONLY'], timeout=900, reach=1,
        extra_sources=['src/utf8_decode.c'], expect=['loop_invariant_base', 'loop_invariant_step', 'loop_decreases', 'postcondition'],
        functions=['is_6531_local', 'utf8_decode_* (inlined)'], files=['src/is_6531_local.c', 'src/utf8_decode.c'], assumptions=[A1, A9],
        note='safety-only contract (see the other safe_* jobs)'))
SAFE_JOBS.append('safe_is_6531_local')
add(Job('errors_table', 'harness/errors_table.c', no_dfcc=True, unwind=52, safety_checks=False, extra_cbmc=['--no-standard-checks'], defines=['-DHAVE_LIBIDN2'], timeout=300, reach=0,
        expect=['assertion'], functions=['errors[] (data)'], files=['src/eav.c'], assumptions=[A_TABLE], note='keyword per code: the message is about its own code'))
add(Job('lemma_ipv6', 'harness/lemma_ipv6.c', no_dfcc=True, unwind=6, timeout=300, reach=1, expect=['assertion'],
        functions=['IPv6 spec automaton (counting lemmas)'], files=[], note='loop-free inductive invariant over a symbolic (state, character) pair'))
add(Job('lemma_rank', 'harness/lemma_rank.c', loops=True, defines=['-DPART_MONO'], timeout=300, reach=1,
        expect=['loop_invariant_base', 'loop_invariant_step', 'loop_decreases', 'assertion'], functions=['dot-rank function (lemma, induction by loop contract)'], files=[],
        note='rank is defined by the step axiom, which is the only assumption inside the loop'))
add(Job('lemma_rank_inst', 'harness/lemma_rank.c', no_dfcc=True, defines=['-DPART_INST'], timeout=300, reach=1, expect=['assertion'],
        functions=['dot-rank function (the four instance shapes assumed by the strchr model)'], files=[],
        note='loop-free; monotonicity instances are assumed here and proved in lemma_rank'))
add(Job('cli_sanitize', 'harness/cli_sanitize.c', enforce='sanitize_utf8', loops=True, timeout=1200, reach=2, mem_est=10,
        expect=['postcondition', 'loop_invariant_base', 'loop_invariant_step', 'loop_decreases'], functions=['sanitize_utf8 (bin/main.h)'], files=['bin/main.h'], assumptions=[A2, A9],
        note='CLI helper; text length <= 2^31: no write outside the buffer, NUL-terminated result, text without control characters echoed unchanged'))
A8 = 'A8: models of the C library used by the eav tool: getline returns EOF or a fresh NUL-terminated buffer of >= 1 arbitrary bytes (a NUL inside the line is allowed), strlen answers from the ghost position of the first NUL, fprintf is a recording model keyed on the format string, fopen may fail; fewer than 2^31 lines per file (the tool counts in int)'
CLI_EXTRACT = 'the body of the getline loop is cut out of bin/main.c by tools/extract_cli_body.py on every run (kept byte for byte except continue -> goto; dropped: prologue, loop header, epilogue - covered by the bounded job)'
add(Job('cli_parse_line', 'harness/cli_parse_line.c', enforce='parse_line', replace=['eav_is_email', 'eav_errstr', 'sanitize_utf8'], timeout=600, reach=4, mem_est=2,
        expect=['postcondition', 'precondition', 'assigns'], functions=['parse_file: body of the getline loop (extracted as parse_line)'], files=['bin/main.c', 'bin/main.h'], assumptions=[A8, A9, CLI_EXTRACT],
        note='loop-free, every line length < 2^31: the library is asked once about exactly the trimmed line, one PASS/FAIL record agrees with its answer and echoes sanitize_utf8 of the same text, FAIL is followed by eav_errstr, comment lines produce nothing'))
add(Job('cli_parse_file_bounded', 'harness/cli_parse_file_bounded.c', no_dfcc=True, unwind=12, defines=['-DCLI_LINES=5', '-DCLI_BYTES=8'], timeout=600, reach=2, mem_est=2,
        expect=['unwind', 'assertion'], functions=['parse_file (whole function)'], files=['bin/main.c', 'bin/main.h'], assumptions=[A8],
        bounded='files of at most 5 lines of at most 8 bytes each; loops unwound 12 times with unwinding assertions; getline re-allocates its buffer on every call; library calls and sanitize_utf8 are checking stubs',
        note='plain CBMC (no contracts, real malloc/free): file closed, every buffer released, one record per non-comment line, one summary line, no memory error'))
add(Job('cli_main_bounded', 'harness/cli_parse_file_bounded.c', no_dfcc=True, unwind=6, defines=['-DCLI_MAIN', '-DCLI_LINES=2', '-DCLI_BYTES=3'], timeout=600, reach=2, mem_est=2,
        expect=['unwind', 'assertion'], functions=['main (bin/main.c)', 'parse_file'], files=['bin/main.c', 'bin/main.h'], assumptions=[A8],
        bounded='at most 2 file arguments, files of at most 2 lines of at most 3 bytes; loops unwound 6 times with unwinding assertions',
        note='plain CBMC: eav_init, then eav_setup on the untouched defaults, one parse_file per file argument, eav_free; exit status 0/1/2; nothing left open'))
add(Job('lemma_local', 'harness/lemma_local.c', no_dfcc=True, timeout=300, reach=1, expect=['assertion'],
        functions=['spec automata (lemmas)'], files=[], note='loop-free over a symbolic (state, character) pair: complete'))

# ---- EAV_EXTRA build of the e-mail functions and of the result-releasing API (C16 last sentence, C06)
for mode in ('822', '5321', '5322'):
    for path in ('HOST', 'LITERAL'):
        n = 'email_%s_%s+extra' % (mode, path.lower())
        add(Job(n, 'harness/email_ascii.c', enforce='is_%s_email' % mode, replace_candidates=EMAIL_CALLEES,
                defines=['-DEMAIL_MODE=' + mode, '-DPATH_' + path, '-DHAVE_LIBIDN2', '-DEAV_EXTRA'], timeout=1200, reach=4,
                expect=['postcondition', 'assigns'], functions=['is_%s_email (EAV_EXTRA build)' % mode],
                files=['src/is_%s_email.c' % mode, 'include/eav/private_email.h'], assumptions=[A1, A2, A3, A6, A9]))
for path in ('HOST', 'LITERAL'):
    add(Job('email_6531_%s+extra' % path.lower(), 'harness/email_6531.c', enforce='is_6531_email', replace_candidates=EMAIL_CALLEES,
            defines=['-DPATH_' + path, '-DEAV_EXTRA'] + BACKENDS['idn2'], timeout=1200, reach=4, backend='idn2',
            expect=['postcondition', 'assigns'], functions=['is_6531_email (EAV_EXTRA build)'],
            files=['partial/idn2/is_6531_email.c', 'include/eav/private_email.h'], assumptions=[A1, A2, A3, A6, A9]))
for fn in ('eav_result_free', 'eav_free', 'eav_is_email'):
    add(Job(fn + '+extra', 'harness/eav_is_email.c' if fn == 'eav_is_email' else 'harness/eav_api.c', enforce=fn,
            replace=(CBS if fn == 'eav_is_email' else []), defines=['-DHAVE_LIBIDN2', '-DEAV_EXTRA'] + ([] if fn == 'eav_is_email' else ['-DJOB_' + fn]),
            timeout=600, reach=(4 if fn == 'eav_is_email' else 1), expect=['postcondition'], functions=[fn + ' (EAV_EXTRA build)'],
            files=['partial/idn2/eav.c', 'src/eav.c'], assumptions=[A2, A7]))

add(Job('is_special_domain_Aq', 'harness/is_special_domain.c', enforce='is_special_domain', loops=True, defines=['-DJOB_A'], timeout=800, reach=0, mem_est=8, solvers=('minisat2', 'cadical'),
        pre_unwind=SP_HELPER_LOOPS, safety_checks=False, extra_cbmc=['--no-standard-checks'], expect=['loop_invariant_base', 'loop_invariant_step', 'loop_decreases', 'assertion'],
        functions=['is_special_domain (counting and skipping loops, quick variant)'], files=['src/is_special_domain.c'], assumptions=[A4, A9,
            'quick variant of job A: same loop contracts and cut obligations, CBMC memory-safety instrumentation off (it is on in job A of the thorough tier)'],
        note='positions half of C09 without the safety instrumentation'))
add(Job('is_special_domain_Bq', 'harness/is_special_domain.c', enforce='is_special_domain', loops=True, defines=['-DJOB_B', '-DSP_LITE'], timeout=600, reach=4,
        pre_unwind=SP_HELPER_LOOPS, safety_checks=False, extra_cbmc=['--no-standard-checks'], expect=['postcondition', 'assertion'],
        functions=['is_special_domain (verdict after the cut, quick variant)'], files=['src/is_special_domain.c'], assumptions=[A4, A6, A9,
            'quick variant of job B: the two loops before the cut are replaced by contracts that say nothing and the cut values proved in job A are installed; CBMC memory-safety instrumentation is off in this job (it is on in jobs A and B of the thorough tier)'],
        note='decides the verdict structure in about a minute; the full jobs A and B (18 + 40 minutes) are in the thorough tier'))

PROPS = {}

from .proptable import *   # HOOK_COMMITS, NOTES, NOT_APPLICABLE, PROPS entries
build_props(PROPS)


def prepare(work):
    """regenerate specification inputs from /repo's data files (spec_tld.h)"""
    import importlib.util
    spec = importlib.util.spec_from_file_location('csv2spec', os.path.join(VERIF, 'tools', 'csv2spec.py'))
    m = importlib.util.module_from_spec(spec); spec.loader.exec_module(m)
    m.main(REPO, os.path.join(work, 'spec_tld.h'))
    # C20: the body of parse_file's getline loop, cut out of /repo's current bin/main.c.  A failed extraction must not
    # disturb other properties: the generated file then holds an #error, and only the job that includes it is undecided.
    spec = importlib.util.spec_from_file_location('extract_cli_body', os.path.join(VERIF, 'tools', 'extract_cli_body.py'))
    x = importlib.util.module_from_spec(spec); spec.loader.exec_module(x)
    out = os.path.join(work, 'cli_parse_line.gen.h')
    try:
        x.main(REPO, out)
    except Exception as e:
        open(out, 'w').write('#error "tools/extract_cli_body.py: extraction failed: %s"\n' % str(e).replace('"', "'"))
