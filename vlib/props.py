"""Job and property tables."""
import os, subprocess
from .driver import Job, VERIF, REPO

A1 = 'A1: C-locale character classification for bytes 0..127 (CBMC built-in isdigit/isalnum/iscntrl models, isascii one-line model)'
A2 = 'A2: malloc does not fail (--no-malloc-may-fail); the properties say "allocation failure aside"'
A7 = 'A7: assumed contract of the IDN library (return code arbitrary; output buffer fresh and NUL-terminated on success; *_strerror returns the library string for the code); nothing about IDNA itself is proved'
A9 = 'A9: machine arithmetic is bit-precise LP64; "every length" means every length up to the object-size bound stated in the contract'

CBS = ['is_822_email', 'is_5321_email', 'is_5322_email', 'is_6531_email']
BACKENDS = {'idn2': ['-DHAVE_LIBIDN2'], 'idn': ['-DHAVE_LIBIDN'], 'idnkit': ['-DHAVE_IDNKIT']}

JOBS = {}


def add(job):
    assert job.name not in JOBS, job.name
    JOBS[job.name] = job
    return job


for be, defs in BACKENDS.items():
    sfx = '' if be == 'idn2' else '@' + be
    add(Job('eav_is_email' + sfx, 'harness/eav_is_email.c', enforce='eav_is_email', replace=CBS, defines=defs,
            expect=['postcondition', 'assigns'], reach=4, timeout=600, backend=be,
            functions=['eav_is_email', 'eav_result_free (inlined)'], files=['partial/%s/eav.c' % be, 'src/eav.c'],
            assumptions=[A2, A7, A9],
            note='loop-free: complete over all 2^32 allow_tld masks, every callback result in (-EEAV_MAX, TLD_TYPE_MAX), every prior object state'))

PROPS = {}

HOOK_COMMITS = ['5cf62d3']
NOTES = ('hooks.add_only is false for one reason only: a loop contract has to stand between a loop header and its body, so each hooked '
         'loop header line "for (...) {" became "for (...)" + "EAV_VERIF_LOOP(id)" + "{" (brace moved to its own line; the `;` of one empty-bodied for loop likewise). '
         'No other existing line is changed. All counts in evidence files are measured per run.')
NOT_APPLICABLE = {}

PROPS['C08'] = dict(
    level='proof',
    level_text='eav_is_email is proved against a closed-form policy contract for all 2^32 allow_tld masks, every callback result code and every prior state of the eav_t (loop-free, so the proof is complete); eav_init defaults and the tld_check=off short-circuit of the e-mail functions are postconditions of their own jobs.',
    level_note='Trusted: CBMC/DFCC, the SAT back ends, malloc never fails (A2), the IDN message function model (A7). The callbacks are replaced by their contract (result range proved in the C01 jobs).',
    quick=[('eav_is_email', 'all')],
    thorough=[('eav_is_email@idn', 'all'), ('eav_is_email@idnkit', 'all')],
    trusted_base=['stub headers for libidn / idnkit APIs (/verif/stubs/include)'],
)


def prepare(work):
    """regenerate specification inputs from /repo's data files (spec_tld.h)"""
    return
