#!/usr/bin/env python3
"""Driver for the contract-based checks of libeav (see DESIGN.md section 5).

A *job* is one CBMC proof: one harness translation unit (which #includes the real
/repo source files), one function whose contract is enforced, callees replaced by
their contracts, loop contracts applied.  A *property check* runs the jobs of the
property, decides pass / violation / undecided and writes the evidence file.

exit 0  every obligation of every job discharged (known findings printed)
exit 1  some obligation failed -> VIOLATION line(s)
exit 2  undecided: tool error, timeout, vacuity guard tripped, hook missing
"""
import json, os, re, shutil, subprocess, sys, time, hashlib, tempfile
from concurrent.futures import ThreadPoolExecutor

VERIF = os.path.dirname(os.path.dirname(os.path.abspath(__file__)))
REPO = os.environ.get('VERIF_REPO', '/repo')
BUILD = os.path.join(VERIF, 'build')

SAFETY_FLAGS = ['--bounds-check', '--pointer-check', '--pointer-overflow-check',
                '--signed-overflow-check', '--undefined-shift-check',
                '--div-by-zero-check', '--pointer-primitive-check']

INCDIRS = ['-I' + REPO + '/include', '-I' + REPO, '-I' + REPO + '/src',
           '-I' + VERIF + '/contracts', '-I' + VERIF + '/spec',
           '-I' + VERIF + '/stubs/include', '-I' + VERIF + '/stubs', '-I' + VERIF]
BASEDEFS = ['-DLIBEAV_VERIF', '-D__NO_CTYPE', '-D_DEFAULT_SOURCE',
            '-DVERIF_REPO="' + REPO + '"']


class Job:
    def __init__(self, name, harness, enforce=None, replace=(), loops=False, defines=(),
                 pre_unwind=(), unwindset=(), unwind=None, object_bits=12, leak=False,
                 timeout=900, expect=(), reach=0, bounded=None, functions=(), files=(),
                 entry='harness', mem_gb=24, extra_cbmc=(), backend='idn2', note='',
                 no_dfcc=False, nondet_static=False, assumptions=(), finder=None,
                 solvers=('cadical', 'minisat2'), extra_sources=(), replace_candidates=(), mem_est=3, pyfunc=None, safety_checks=True,
                 slice_formula=False):
        self.__dict__.update(locals())
        del self.__dict__['self']


def sh(cmd, timeout=None, mem_gb=None, cwd=None):
    """run, return (rc, stdout, stderr, seconds); rc=-9 on timeout"""
    t0 = time.time()
    pre = None
    if mem_gb:
        import resource
        lim = int(mem_gb * (1 << 30))
        def pre():
            resource.setrlimit(resource.RLIMIT_AS, (lim, lim))
            os.setsid()
    else:
        pre = os.setsid
    p = subprocess.Popen(cmd, stdout=subprocess.PIPE, stderr=subprocess.PIPE, cwd=cwd,
                         preexec_fn=pre, text=True, errors='replace')
    try:
        out, err = p.communicate(timeout=timeout)
        rc = p.returncode
    except subprocess.TimeoutExpired:
        try:
            os.killpg(p.pid, 9)
        except Exception:
            p.kill()
        out, err = p.communicate()
        rc = -9
    return rc, out, err, time.time() - t0


class JobResult:
    def __init__(self, job):
        self.job = job
        self.status = 'undecided'     # proved | failed | undecided
        self.reason = ''
        self.obligations = []         # dicts: name, description, status, file, line, function
        self.reach = []               # canaries
        self.seconds = {}
        self.cmds = []
        self.backend = ''
        self.replaced = []
        self.log = ''

    @property
    def failed(self):
        """obligations the verifier refuted (FAILURE).  CBMC reports obligations that come after a refuted
        one on the same path as UNKNOWN: they are not discharged, but they are not refuted either."""
        return [o for o in self.obligations if o['status'] == 'FAILURE']

    @property
    def undischarged(self):
        return [o for o in self.obligations if o['status'] != 'SUCCESS']


def portfolio(cmd, solvers, timeout, mem_gb):
    """run the same cbmc query on several SAT back ends in parallel; the first to finish decides
    (they decide the same formula; this only guards against one solver being slow on it)"""
    import resource, select
    lim = int(mem_gb * (1 << 30))
    def pre():
        resource.setrlimit(resource.RLIMIT_AS, (lim, lim))
        os.setsid()
    t0 = time.time()
    procs = []
    for sv in solvers:
        of = tempfile.TemporaryFile(mode='w+'); ef = tempfile.TemporaryFile(mode='w+')
        # 'minisat2+ra' = minisat2 with --refine-arrays: array-theory constraints are added on demand instead of
        # for every pair of indices up front (same verdicts, far less memory when the input buffer is read at
        # many symbolic offsets; the option is ignored by the cadical back end, hence minisat2 only)
        sflags = ['--sat-solver', 'minisat2', '--refine-arrays'] if sv == 'minisat2+ra' else ['--sat-solver', sv]
        p = subprocess.Popen(cmd + sflags, stdout=of, stderr=ef, preexec_fn=pre)
        procs.append((sv, p, of, ef))
    winner = None
    while winner is None and time.time() - t0 < timeout:
        for sv, p, of, ef in procs:
            rc = p.poll()
            if rc is not None and rc in (0, 10):      # 0 = all proved, 10 = some failed: a verdict
                winner = (sv, p, of, ef); break
        else:
            if all(p.poll() is not None for _, p, _, _ in procs):
                winner = procs[0]                     # every back end errored: report the first
                break
            time.sleep(0.05)
    for sv, p, of, ef in procs:
        if p.poll() is None:
            try: os.killpg(p.pid, 9)
            except Exception: p.kill()
            p.wait()
    if winner is None:
        for _, _, of, ef in procs: of.close(); ef.close()
        return -9, '', '', time.time() - t0, None
    sv, p, of, ef = winner
    of.seek(0); ef.seek(0); out = of.read(); err = ef.read()
    for _, _, o, e in procs: o.close(); e.close()
    return p.returncode, out, err, time.time() - t0, sv


def repo_rel(path):
    if path and path.startswith(REPO + '/'):
        return path[len(REPO) + 1:]
    return path


def parse_cbmc_json(text):
    """returns (list of result dicts, prover status, messages)"""
    try:
        data = json.loads(text)
    except Exception:
        # truncated output (killed): try to salvage nothing
        return None, None, ['unparseable cbmc json output']
    results, status, msgs = None, None, []
    for item in data:
        if 'result' in item:
            results = item['result']
        if 'cProverStatus' in item:
            status = item['cProverStatus']
        if item.get('messageType') in ('ERROR', 'WARNING'):
            msgs.append(item.get('messageText', ''))
    return results, status, msgs


def run_job(job, workdir, keep=False, extra_defs=(), trace_property=None):
    """build + verify one job; returns JobResult"""
    r = JobResult(job)
    os.makedirs(workdir, exist_ok=True)
    if job.pyfunc:
        t0 = time.time()
        try:
            job.pyfunc(job, r)
        except Exception as e:
            r.status = 'undecided'; r.reason = 'supporting check raised %r' % e
        r.seconds['py'] = round(time.time() - t0, 2)
        return r
    gb0 = os.path.join(workdir, job.name + '.0.gb')
    gb1 = os.path.join(workdir, job.name + '.1.gb')
    gb2 = os.path.join(workdir, job.name + '.2.gb')
    harness = os.path.join(VERIF, job.harness)
    if not os.path.exists(harness):
        r.reason = 'harness file missing: ' + job.harness
        return r
    for f in job.files:
        if not os.path.exists(os.path.join(REPO, f)):
            r.reason = 'source file missing in repo: ' + f
            return r
    # -- 1. compile
    cmd = ['goto-cc'] + BASEDEFS + list(job.defines) + list(extra_defs) + INCDIRS + \
          ['--function', job.entry, harness] + [os.path.join(REPO, x) for x in job.extra_sources] + ['-o', gb0]
    rc, out, err, s = sh(cmd, timeout=300)
    r.cmds.append(' '.join(cmd)); r.seconds['goto-cc'] = round(s, 2)
    if rc != 0:
        r.reason = 'goto-cc failed: ' + (err + out)[-1500:]
        return r
    cur = gb0
    # -- 2. unwind contract-less helper loops before DFCC
    if job.pre_unwind:
        us = ','.join('%s:%d' % (l, n) for l, n in job.pre_unwind)
        cmd = ['goto-instrument', '--unwindset', us, '--unwinding-assertions', cur, gb1]
        rc, out, err, s = sh(cmd, timeout=300)
        r.cmds.append(' '.join(cmd)); r.seconds['pre-unwind'] = round(s, 2)
        if rc != 0:
            r.reason = 'goto-instrument --unwindset failed: ' + (err + out)[-1500:]
            return r
        cur = gb1
    # -- 3. contracts
    if not job.no_dfcc:
        cmd = ['goto-instrument', '--no-malloc-may-fail', '--dfcc', job.entry]
        if job.enforce:
            cmd += ['--enforce-contract', job.enforce]
        repl = list(job.replace)
        if job.replace_candidates:
            # replace exactly those candidates the code actually calls (a call to a validator that must
            # not be called is then checked against that validator's contract, whose precondition is false)
            rc0, out0, err0, _ = sh(['goto-instrument', '--list-undefined-functions', cur], timeout=120)
            called = set(l.strip() for l in out0.split('\n'))
            repl += [g for g in job.replace_candidates if g in called and g not in repl]
        r.replaced = repl
        for g in repl:
            cmd += ['--replace-call-with-contract', g]
        if job.loops:
            cmd += ['--apply-loop-contracts']
        cmd += [cur, gb2]
        rc, out, err, s = sh(cmd, timeout=600, mem_gb=job.mem_gb)
        r.cmds.append(' '.join(cmd)); r.seconds['dfcc'] = round(s, 2)
        if rc != 0:
            r.reason = 'goto-instrument --dfcc failed: ' + (err + out)[-2500:]
            return r
        cur = gb2
    elif job.nondet_static:
        cmd = ['goto-instrument', '--nondet-static', cur, gb2]
        rc, out, err, s = sh(cmd, timeout=300)
        r.cmds.append(' '.join(cmd))
        if rc != 0:
            r.reason = 'goto-instrument --nondet-static failed: ' + (err + out)[-1500:]
            return r
        cur = gb2
    # -- 4. cbmc
    cmd = ['cbmc', cur, '--no-malloc-may-fail', '--object-bits', str(job.object_bits)] + (SAFETY_FLAGS if job.safety_checks else [])
    if job.leak:
        cmd += ['--memory-leak-check']
    if job.unwindset:
        cmd += ['--unwindset', ','.join('%s:%d' % (l, n) for l, n in job.unwindset)]
    if job.unwind:
        cmd += ['--unwind', str(job.unwind)]
    if job.unwindset or job.unwind:
        cmd += ['--unwinding-assertions']
    if job.slice_formula:
        cmd += ['--slice-formula']
    cmd += list(job.extra_cbmc)
    if trace_property:
        cmd += ['--property', trace_property, '--trace']
    cmd += ['--json-ui']
    solvers = list(job.solvers) if not trace_property else list(job.solvers)[:1]
    if os.environ.get('VERIF_SOLVERS'):          # experiments only: override the portfolio
        solvers = os.environ['VERIF_SOLVERS'].split(',')
    rc, out, err, s, won = portfolio(cmd, solvers, timeout=job.timeout, mem_gb=job.mem_gb)
    r.cmds.append(' '.join(cmd) + ' --sat-solver {' + ','.join(solvers) + '}  [first to finish: %s]' % won)
    r.seconds['cbmc'] = round(s, 2); r.backend = 'cbmc 6.11 SAT/' + str(won)
    r.log = out if trace_property else ''
    if rc == -9:
        r.reason = ('cbmc timeout after %ds' % job.timeout) if s >= job.timeout - 1 else 'cbmc was killed after %ds (out of memory?)' % int(s)
        return r
    results, status, msgs = parse_cbmc_json(out)
    if results is None:
        r.reason = 'cbmc gave no result list (rc=%s): %s' % (rc, (' | '.join(msgs) + err)[-1500:])
        return r
    for it in results:
        loc = it.get('sourceLocation', {}) or {}
        o = dict(name=it.get('property', ''), description=it.get('description', ''),
                 status=it.get('status', ''), file=repo_rel(loc.get('file', '')),
                 line=loc.get('line', ''), function=loc.get('function', ''))
        if trace_property:
            o['trace'] = it.get('trace')
        if o['description'].startswith('REACH'):
            r.reach.append(o)
        else:
            r.obligations.append(o)
    annotate_clauses(job, r, extra_defs)
    if not keep:
        for f in (gb0, gb1, gb2):
            try:
                os.remove(f)
            except OSError:
                pass
    if trace_property:
        r.status = 'trace'
        return r
    # -- 5. vacuity guards / self checks
    names = [o['name'] for o in r.obligations]
    if not r.obligations:
        r.reason = 'no obligations generated'
        return r
    unwind_fail = [o for o in r.obligations if '.unwind.' in o['name'] and o['status'] == 'FAILURE'
                   and 'recursion' not in o['name']]
    other_fail = [o for o in r.obligations if o['status'] == 'FAILURE' and '.unwind.' not in o['name']]
    if unwind_fail and not other_fail:
        r.reason = 'unwinding assertion failed and nothing else was refuted (bound too small): ' + unwind_fail[0]['name']
        return r
    if other_fail:
        # refuted obligations decide the job; the vacuity guards below only matter for a job that would otherwise pass
        r.status = 'failed'
        return r
    for fam in job.expect:
        if not any(fam in n for n in names):
            r.reason = 'expected obligation family missing: %s (contract or hook dropped?)' % fam
            return r
    if len(r.reach) != job.reach:
        r.reason = 'expected %d REACH canaries, found %d' % (job.reach, len(r.reach))
        return r
    dead = [c for c in r.reach if c['status'] != 'FAILURE']
    if dead:
        r.reason = 'vacuity: canary not reachable: ' + dead[0]['description']
        return r
    if r.failed:
        r.status = 'failed'
    elif r.undischarged:
        r.status = 'undecided'
        r.reason = 'obligations neither discharged nor refuted: ' + ', '.join('%s=%s' % (o['name'], o['status']) for o in r.undischarged[:5])
    else:
        r.status = 'proved'
    return r


def split_clauses(text, kw):
    out = []
    i = 0
    while True:
        i = text.find(kw + '(', i)
        if i < 0:
            break
        j = i + len(kw) + 1
        depth = 1
        while j < len(text) and depth:
            depth += text[j] == '('
            depth -= text[j] == ')'
            j += 1
        out.append(' '.join(text[i + len(kw) + 1:j - 1].split()))
        i = j
    return out


def annotate_clauses(job, r, extra_defs):
    """give '<fn>.postcondition.N' obligations the text of the N-th ensures clause of the enforced
    function's contract (contracts are written with macros, so CBMC's location is one line)"""
    if not job.enforce:
        return
    try:
        cmd = ['gcc', '-E', '-P', '-x', 'c'] + BASEDEFS + list(job.defines) + list(extra_defs) + INCDIRS + \
              ['-D__CPROVER_requires(...)=@REQ(__VA_ARGS__)', '-D__CPROVER_ensures(...)=@ENS(__VA_ARGS__)',
               '-D__CPROVER_assigns(...)=@ASG(__VA_ARGS__)', '-D__CPROVER_frees(...)=@FRE(__VA_ARGS__)',
               '-D__CPROVER_loop_invariant(...)=@INV(__VA_ARGS__)', '-D__CPROVER_decreases(...)=@DEC(__VA_ARGS__)',
               os.path.join(VERIF, job.harness)]
        rc, out, err, _ = sh(cmd, timeout=60)
        # the contract-bearing declaration of the enforced function: "<fn> (...)" followed by @REQ/@ENS ... ';'
        import re as _re
        best = None
        for m in _re.finditer(r'\b%s\s*\(' % _re.escape(job.enforce), out):
            k = m.end(); depth = 1
            while k < len(out) and depth:
                depth += out[k] == '('; depth -= out[k] == ')'; k += 1
            rest = out[k:k + 200000]
            if rest.lstrip().startswith('@'):
                end = rest.find(';')
                # clauses contain no ';' at depth 0 except the terminator; find terminator at depth 0
                d = 0
                for q, ch in enumerate(rest):
                    d += ch == '('; d -= ch == ')'
                    if ch == ';' and d == 0:
                        end = q; break
                best = rest[:end]
                break
        if not best:
            return
        ens = split_clauses(best, '@ENS')
        for o in r.obligations:
            m = _re.match(r'.*\.postcondition\.(\d+)$', o['name'])
            if m and o['function'] == job.enforce or (m and job.enforce in o['name']):
                n = int(m.group(1))
                if 1 <= n <= len(ens):
                    o['description'] = 'ensures #%d of %s: %s' % (n, job.enforce, ens[n - 1][:700])
    except Exception:
        return


def _bounded_is_obligation(self):
    return False
Job.bounded_is_obligation = _bounded_is_obligation


# ------------------------------------------------------------------------------------
def tool_versions():
    v = {}
    for t in ('cbmc', 'goto-cc', 'goto-instrument'):
        try:
            v[t] = subprocess.run([t, '--version'], capture_output=True, text=True).stdout.strip().split('\n')[0]
        except Exception as e:
            v[t] = 'missing: %s' % e
    return v


def scan_assumes():
    """mechanical scan for __CPROVER_assume in contracts/spec/harness/stubs"""
    found = []
    for d in ('contracts', 'spec', 'stubs', 'harness'):
        p = os.path.join(VERIF, d)
        for root, _, files in os.walk(p):
            for f in sorted(files):
                fp = os.path.join(root, f)
                try:
                    txt = open(fp, errors='replace').read()
                except Exception:
                    continue
                n = len(re.findall(r'__CPROVER_assume\s*\(', txt))
                if n:
                    found.append('%s: %d __CPROVER_assume' % (os.path.relpath(fp, VERIF), n))
    return found
