"""What is claimed per property: jobs per tier, level, notes (single source for MANIFEST.json)."""

HOOK_COMMITS = ['5cf62d3', 'acf6989', 'c068a63', '0559a05']
NOTES = ('hooks.add_only is false for one reason only: a loop contract has to stand between a loop header and its body, so each hooked '
         'loop header line "for (...) {" became "for (...)" + "EAV_VERIF_LOOP(id)" + "{" (brace moved to its own line; the `;` of one empty-bodied for loop likewise). '
         'No other existing line is changed. All counts in evidence files are measured per run. Genuine defects found and repaired are listed in '
         'known_findings.json (fixed:) and DESIGN.md section 8. Exit codes of every check: 0 all obligations discharged, 1 VIOLATION, 2 undecided (tool error, timeout, vacuity guard). '
         'When the verifier cannot decide a job on a changed tree (e.g. a new loop without contract), the check additionally runs the replay oracle\'s search (real code vs the specification macros) and reports a VIOLATION only if that finds and replays a concrete disagreeing input; this fallback is differential testing, is labelled as such, and never runs when all jobs are decided.')
NOT_APPLICABLE = {}

TECH = 'CBMC 6.11 code contracts on the real source files: goto-instrument --dfcc --enforce-contract / --replace-call-with-contract / --apply-loop-contracts, ghost specification automata, SAT (cadical/minisat2)'
TB_COMMON = ['models of libc functions in /verif/stubs and harness files (strchr/strrchr/strspn/strncasecmp/strlen, see assumptions)']

E_HOST = ['email_822_host', 'email_5321_host', 'email_5322_host', 'email_6531_host']
E_LIT = ['email_822_literal', 'email_5321_literal', 'email_5322_literal', 'email_6531_literal']


def ALL(names, sel='all'):
    return [(n, sel) for n in names]


def build_props(PROPS):
    PROPS['C01'] = dict(
        level='proof', quick=ALL(E_HOST + E_LIT + ['eav_setup', 'eav_is_email']),
        thorough=ALL(['email_6531_host@idn', 'email_6531_host@idnkit', 'eav_setup@idn', 'eav_setup@idnkit']),
        level_text='Each is_<mode>_email is proved, for every NUL-terminated input of every length, to split at the index strrchr returns for "@", to reject the empty / no-"@" / empty-domain / >64-octet cases without calling a validator, and otherwise to call exactly the local-part validator of its own mode on L and the domain validator on D and to return their composition; eav_setup is proved to install the callbacks of the mode chosen, eav_is_email to call exactly that callback. The validators themselves are proved in C02-C05.',
        level_note='Modular: callees are replaced by recording contracts whose result ranges are proved in their own jobs. Assumed: strrchr returns the last occurrence (A3), no interior NUL (premise of the property), malloc succeeds (A2).',
        trusted_base=TB_COMMON, technique=TECH)
    PROPS['C02'] = dict(
        level='proof', quick=ALL(['is_822_local', 'is_5321_local', 'is_5322_local']), thorough=[],
        level_text='Each ASCII scanner is proved equal to a specification automaton written from the property text (spec/spec_local.h), in both directions, by a loop contract whose invariant relates the scanner variables to the ghost automaton state; input length is symbolic (<= 2^40). Per-error-code postconditions pin the reported reason.',
        level_note='Assumed: C-locale iscntrl (A1). For inputs containing NUL the scan stops there (outside the property). 822: the byte at end is "@" or NUL (true at every call site). That "dead is absorbing" (so a dead ghost state means no extension is accepted) is proved in the lemma job of C12.',
        trusted_base=TB_COMMON, technique=TECH)
    PROPS['C03'] = dict(
        level='proof', quick=ALL(['utf8_decode_next', 'is_6531_local']), thorough=ALL(['is_6531_local+wf']),
        level_text='utf8_decode_next is proved against Unicode Table 3-7 for every byte tuple at every offset (loop-free, complete). is_6531_local (decoder inlined) is proved by loop contract: accept => every byte was consumed as one well-formed sequence contiguous with the previous one and the 6531 automaton over the decoded characters accepts; reject => automaton dead / non-accepting, or the decoder stopped inside the input.',
        level_note='Input length <= 2^31-16 (decoder stores lengths in int). In the quick tier the reject direction for EEAV_LPART_INVALID_UTF8 is composed from two obligations (decoder job: error <=> no well-formed sequence at the index; scanner job: INVALID_UTF8 only when the decoder stopped before the end of the input, at a non-ASCII byte); the thorough tier discharges it as one postcondition of the scanner (job is_6531_local+wf: INVALID_UTF8 => no well-formed sequence of Table 3-7 starts at the position reached; 12 min with --refine-arrays). A1.',
        trusted_base=TB_COMMON, technique=TECH)
    PROPS['C04'] = dict(
        level='proof', quick=ALL(['is_ascii_domain', 'is_utf8_domain']), thorough=ALL(['is_utf8_domain@idn', 'is_utf8_domain@idnkit']),
        level_text='is_ascii_domain is proved equal (both directions, every length) to the host-name automaton of spec/spec_host.h incl. the 63/253 limits, root-dot stripping and the all-numeric rule; is_utf8_domain is proved to apply it to exactly the whole converted string.',
        level_note='IDNA conversion itself is the assumed contract A7. A1. LABELS_ALLOW_UNDERSCORE variant: C17.',
        trusted_base=TB_COMMON, technique=TECH)
    PROPS['C05'] = dict(
        level='proof', quick=ALL(['is_ipv4', 'is_ipv6', 'is_ipaddr'] + E_LIT), thorough=ALL(['lemma_ipv6', 'is_ipv6_anylen']),
        level_text='is_ipv4 (loop contract, every length) is proved against the IPv4 automaton: YES => accepted by the automaton; conversely dotted quads with non-zero first octet => YES. is_ipv6: its loop runs at most 17 times whatever the input length; it is fully unwound (18 iterations, unwinding assertion discharged) and shown against the RFC 4291 automaton (YES => accepted; RFC 5321 shapes => YES; dotted-quad tail handed to is_ipv4 from the start of its group). The quick tier runs this on inputs of at most 45 bytes (job is_ipv6, labelled bounded, not counted as proved); the thorough tier runs the same contract on inputs of every length (job is_ipv6_anylen, 46 min / 18 GB), which is a complete proof. The e-mail functions are proved to accept a literal only as "[" addr "]" with nothing after, v4 by is_ipv4, v6 only after the tag "IPv6:" (or untagged when the first byte is a digit), flags by family.',
        level_note='BOUNDED PART (quick tier only): job is_ipv6 covers address texts of at most 45 bytes (an RFC 4291 address without superfluous leading zeros in a dotted-quad tail has at most 45); the thorough tier removes the bound (is_ipv6_anylen). strspn models A5, strchr/strrchr A3, tag comparison oracle A6; precondition of is_ipv4/is_ipv6: the closing bracket follows (true at every call site). Reject direction for IPv6: the converse (RFC 5321 shapes => YES) is stated for inputs the scan reads to the end, and an early NO is an obligation too: it must come from is_ipv4 refusing the dotted-quad tail or from unread bytes that are fatal for the automaton (NUL, a dead step within two bytes, a dot where no dotted quad may start, an 8th colon, a run of five hex digits); the last two rest on the counting facts proved in job lemma_ipv6 (at most 7 colons, five hex digits are fatal from every state).',
        trusted_base=TB_COMMON, technique=TECH)
    PROPS['C07'] = dict(
        level='proof', quick=ALL(['is_tld', 'tld_table', 'email_822_host', 'is_utf8_domain']),
        thorough=ALL(['email_5321_host', 'email_5322_host', 'email_6531_host']),
        level_text='is_tld is proved (loop contract over the real 1591-row table) to return the class of the first entry that compares equal, each entry compared from the first byte of the label over its own length; the table job proves length == strlen+1 (terminator compared: whole label), names unique lower-case LDH, classes 1..9; the e-mail / is_utf8_domain jobs prove that the label handed over is the text after the *last* dot, after the reserved-domain test, NOT_FQDN when there is no dot.',
        level_note='strncasecmp is an oracle (A6: ASCII case-insensitive equality is glibc semantics). U-label/A-label equivalence rests on the IDN library (A7).',
        trusted_base=TB_COMMON, technique=TECH)
    PROPS['C08'] = dict(
        level='proof',
        quick=ALL(['eav_is_email', 'eav_init', 'email_822_host', 'email_822_literal']),
        thorough=ALL(['eav_is_email@idn', 'eav_is_email@idnkit', 'eav_init@idn', 'eav_init@idnkit', 'email_5321_host', 'email_5322_host', 'email_6531_host', 'is_utf8_domain']),
        level_text='eav_is_email is proved against a closed-form policy contract for all 2^32 allow_tld masks, every callback result code and every prior state of the eav_t (loop-free, so the proof is complete); eav_init defaults and the tld_check=off short-circuit of the e-mail functions are postconditions of their own jobs.',
        level_note='Trusted: CBMC/DFCC, the SAT back ends, malloc never fails (A2), the IDN message function model (A7). The callbacks are replaced by their contract (result range proved in the C01 jobs).',
        trusted_base=TB_COMMON, technique=TECH)
    PROPS['C10'] = dict(
        level='proof', quick=ALL(['is_utf8_domain', 'email_6531_host', 'is_special_domain_Aq', 'is_special_domain_Bq', 'lemma_rank', 'lemma_rank_inst', 'is_tld']), thorough=ALL(['is_utf8_domain@idn', 'is_utf8_domain@idnkit']),
        level_text='Proved: the verdict, class and flags of mode 6531 are a function of the converted (A-label) string only, computed by exactly the pipeline the ASCII modes apply (is_ascii_domain, is_special_domain, last label, is_tld); a 6531 rejection the ASCII pipeline would not produce is -EEAV_IDN_ERROR; the two table-driven stages of that pipeline (is_special_domain, is_tld) are proved to compare case-insensitively over whole labels (their C09 / C07 contracts are part of this check), so an upper-case A-label spelling given to an ASCII mode gets the class the lower-cased conversion result gets in mode 6531. NOT proved: that the IDN library maps U-label and A-label spellings to the same string, lower-cases ASCII and rejects IDNA2008 violations.',
        level_note='The IDNA half of the property is the behaviour of libidn2, carried as assumed contract A7; this check decides the libeav half only.',
        trusted_base=TB_COMMON, technique=TECH)
    PROPS['C11'] = dict(
        level='proof', quick=ALL(['tld_table', 'is_tld']), thorough=[],
        level_text='is_tld is proved to answer with the class of the first entry equal to the whole label (job is_tld, as in C07), and the shipped table is evaluated exactly by CBMC against rows regenerated from data/punycode.csv on every run: same row count, every entry a CSV row with the class rule of the property, no row twice (bijection), lower-case LDH A-labels, length = strlen+1, sentinel.',
        level_note='The second sentence of the property (re-running util/*.pl reproduces the shipped files) is outside this technique: Perl generators, no verifier for them, Text::CSV not installed. tools/csv2spec.py (Python csv module) is trusted to read the CSV.',
        trusted_base=['tools/csv2spec.py (CSV reader + the three-line class rule)'],
        technique='CBMC constant evaluation of the real src/auto_tld.c against a specification table generated from data/punycode.csv')
    PROPS['C13'] = dict(
        level='proof', quick=ALL(['eav_is_email', 'eav_setup', 'eav_free', 'eav_errstr', 'eav_init', 'eav_result_free']), thorough=[],
        level_text='Every API function is proved against its contract for an arbitrary pre-state satisfying the object invariant (arbitrary stale errcode, idnmsg, result, previously confirmed mode); postconditions determine every observable field from (confirmed mode, tld_check, allow_tld, callback result) only and mention no old value; frames list exactly what may change; the previous result is freed (was_freed), eav_free leaves result NULL. Induction over call sequences is then immediate (meta-step).',
        level_note='The induction over histories is a one-line meta-argument over the per-call proofs, not a CBMC obligation. A2, A7.',
        trusted_base=TB_COMMON, technique=TECH)
    PROPS['C15'] = dict(
        level='proof', quick=ALL(['eav_is_email', 'eav_errstr', 'errors_table', 'eav_setup', 'is_5321_local', 'is_ascii_domain', 'is_tld', 'email_822_literal']),
        thorough=ALL(['is_822_local', 'is_5322_local', 'is_6531_local', 'email_822_host']),
        level_text='Per-error-code postconditions with ghost witnesses on the validators (TOO_MANY_DOTS => the byte read and the next are both ".", NOT_ASCII => byte > 127, CTRL_CHAR => control byte, LABEL_TOO_LONG => run > 63, NUMERIC => only digits and dots, TLD_INVALID <=> not in the table ...); eav_is_email: return 1 <=> errcode 0, errcode = -rc, idnmsg = library message exactly for IDN errors; eav_errstr non-empty message of the recorded code; eav_setup 0 / EEAV_INVALID_RFC and the error is recorded.',
        level_note='A1, A7. That the text of errors[k] is about code k is checked by keyword (one or two words per code taken from the name of the code), not by meaning.',
        trusted_base=TB_COMMON, technique=TECH)
    PROPS['C16'] = dict(
        level='proof', quick=ALL(E_HOST + E_LIT),
        thorough=ALL(['email_822_host+extra', 'email_822_literal+extra', 'email_5321_host+extra', 'email_5321_literal+extra', 'email_5322_host+extra', 'email_5322_literal+extra', 'email_6531_host+extra', 'email_6531_literal+extra',
                      'eav_result_free+extra', 'eav_free+extra', 'eav_is_email+extra']),
        level_text='Postconditions of the four e-mail functions: at most one flag; on acceptance exactly the flag of the path taken (host name / IPv4 / IPv6 by family); no flag when a half is syntactically invalid; result code 0 / class / negative as in the property; record fresh and fully initialised.',
        level_note='The EAV_EXTRA sentence of the property is decided in the thorough tier only (the four e-mail functions (6531: libidn2 back end), eav_result_free, eav_free, eav_is_email built with -DEAV_EXTRA: lpart / domain are strndup copies of exactly the two halves, without brackets for literals, NULL when no flag is set, released by eav_result_free). A2, A3.',
        trusted_base=TB_COMMON, technique=TECH)
    PROPS['C18'] = dict(
        level='proof',
        quick=ALL(['eav_setup@idnkit', 'eav_free@idnkit', 'eav_is_email@idnkit', 'eav_is_email@idn', 'is_utf8_domain@idn', 'is_utf8_domain@idnkit', 'email_6531_host@idn', 'email_6531_host@idnkit']),
        thorough=ALL(['eav_setup@idn', 'eav_free@idn', 'eav_init@idn', 'eav_init@idnkit', 'eav_errstr@idn', 'eav_errstr@idnkit', 'email_6531_literal@idn', 'email_6531_literal@idnkit', 'eav_is_email', 'is_utf8_domain', 'email_6531_host']),
        level_text='The same contract text is enforced on partial/idn2, partial/idn and partial/idnkit (which this machine cannot compile; CBMC parses them against declaration-only stub headers): identical contracts => identical decisions given equal conversions. idnkit: a ghost live-counter proves the resolver context is created at most once and destroyed exactly once by eav_setup(ASCII mode) / eav_free.',
        level_note='Trusted: the stub headers /verif/stubs/include/{idna.h,idn/api.h} reflect the real APIs; A7.',
        trusted_base=TB_COMMON + ['declaration-only stub headers for libidn and idnkit'], technique=TECH)
    PROPS['C19'] = dict(
        level='proof', quick=ALL(['is_utf8_domain', 'email_6531_host', 'eav_is_email']), thorough=ALL(['is_utf8_domain@idn', 'eav_is_email@idn']),
        level_text='With the IDN conversion modelled as returning every int code, with or without an output buffer: is_utf8_domain returns -EEAV_IDN_ERROR, stores the code, calls no validator, frees the buffer exactly once (was_freed + CBMC double-free / leak checks); is_6531_email then sets no flag; eav_is_email records EEAV_IDN_ERROR with the library message for that code and re-establishes the object invariant, which is all the next call assumes (C13).',
        level_note='A7 (assumed library contract), A2.',
        trusted_base=TB_COMMON, technique=TECH)

    SAFE = ['safe_is_822_local', 'safe_is_5321_local', 'safe_is_5322_local', 'safe_is_6531_local', 'safe_is_ascii_domain', 'safe_is_ipv4']
    PROPS['C06'] = dict(
        level='proof',
        quick=ALL(SAFE) + ALL(['utf8_decode_next', 'is_tld', 'is_ipaddr', 'is_utf8_domain', 'eav_is_email', 'eav_free', 'email_822_host', 'email_822_literal'], 'safety')
              + ALL(['eav_init', 'eav_result_free', 'lifecycle']),
        thorough=ALL(['is_ipv6', 'is_ipv6_anylen', 'is_special_domain_A', 'is_special_domain_B', 'email_5321_host', 'email_5322_host', 'email_6531_host', 'email_5321_literal', 'email_5322_literal', 'email_6531_literal', 'is_utf8_domain@idn', 'is_utf8_domain@idnkit'], 'safety')
                 + ALL(['lifecycle@idn', 'lifecycle@idnkit', 'eav_init@idn', 'eav_init@idnkit']),
        level_text='Union of the safety obligations CBMC instruments on the real code under contracts that describe every NUL-terminated input of every length: pointer validity of every access incl. look-behind cp[-1] and look-ahead cp[1]/cp[2]/end[-1] (the input object is exactly is_fresh(s, len+1)), pointer / signed overflow, shifts, division; frames (assigns: nothing but the result object / the eav_t / ghost state); a decreases clause bounded by the input length on every loop (linear termination); abort() unreachable; eav_init establishes every field later calls read; no leak / double free on a whole API history (lifecycle job) and in is_utf8_domain for every IDN outcome. The scanner jobs used here are safety-only variants whose invariants do not mention the functional specification.',
        level_note='quick tier covers the scanners, decoder, is_tld, is_ipaddr, is_utf8_domain, the eav_* API and one e-mail function; is_ipv6, is_special_domain and the other e-mail functions / back ends are in the thorough tier (their functional jobs carry the same safety obligations and run in the quick tiers of C05 / C09 / C01). Not covered: stack depth, real libidn2 internals (A7), allocation failure (A2).',
        trusted_base=TB_COMMON, technique=TECH)
    PROPS['C09'] = dict(
        level='proof', quick=ALL(['is_special_domain_Aq', 'is_special_domain_Bq', 'lemma_rank', 'lemma_rank_inst', 'email_822_host']), thorough=ALL(['is_special_domain_A', 'is_special_domain_B', 'is_utf8_domain']),
        level_text='is_special_domain is proved for every valid host name of 1..253 bytes without root dot, any number / length / content of labels: job A (loop contracts over a dot-rank model of strchr) proves that the cursor reaches exactly the start of the second-to-last label (or the no-dot shortcut is taken iff there is no dot); job B proves that every comparison is made between a reserved word, its own length + 1 and the NUL-terminated copy of exactly the last / second-to-last label, and that the verdict is YES iff the last label is a reserved word or the last two are example.<com|net|org>, whatever the length of the second-to-last label; job lemma_rank proves the rank facts assumed by the strchr model.',
        level_note='QUICK TIER: both halves WITHOUT CBMC\'s memory-safety instrumentation (job is_special_domain_Aq: loop contracts + cut obligations, 1 min; job is_special_domain_Bq: the loops before the cut havocked, the cut values installed, verdict structure, 1 min) + the rank lemmas + the call site; the same two halves WITH all safety obligations (job A 18 min, job B 40 min / 18 GB) run in the thorough tier, because a quick check has to answer within 15 minutes. Composition of the halves is by the shared cut predicate (asserted in A, assumed in B). strncasecmp is an oracle (A6).',
        trusted_base=TB_COMMON, technique=TECH)
    PROPS['C12'] = dict(
        level='proof', quick=ALL(['lemma_local', 'is_5321_local', 'is_822_local', 'is_5322_local', 'is_6531_local', 'email_822_host', 'email_5321_host', 'email_5322_host']),
        thorough=ALL(['email_822_literal', 'email_5321_literal', 'email_5322_literal']),
        level_text='Each scanner is proved equal to its specification automaton (C02/C03 jobs); the cross-mode statements are then lemmas about the automata, proved loop-free over a symbolic (state, character) pair: without DQUOTE and backslash the four automata move in lock step through the unquoted states; every live transition of the 5321 automaton is a transition of the 822 automaton; the domain halves of the three ASCII e-mail functions are proved against one and the same contract text.',
        level_note='The step from "each code equals its automaton" + "the automata agree" to "the codes agree" is a two-line meta-argument. Equality of the *error code* across modes follows from the per-code postconditions of the four scanners: every code is tied to a condition on the offending byte (non-ASCII / control / special or space / dot at the edge / double dot / quote), these conditions are mutually exclusive, and the scanners reject at the same byte (or, for a double dot, at one of two adjacent dots with the same code); this last step is an argument over the postconditions, not a CBMC obligation.',
        trusted_base=TB_COMMON, technique=TECH)
    PROPS['C14'] = dict(
        level='other',
        quick=ALL(['static_scan']) + ALL(SAFE + ['utf8_decode_next', 'is_tld', 'is_utf8_domain', 'eav_is_email', 'eav_setup', 'eav_free'], 're:assigns|frees|is assignable'),
        thorough=ALL(['is_6531_local', 'email_822_host', 'email_6531_host', 'is_special_domain_A'], 're:assigns|frees|is assignable'),
        level_text='This technique has no model of interleavings. What is proved is the absence of shared mutable state, from which race freedom and sequential equivalence follow by the standard disjoint-footprint argument (stated, not mechanised): every library function is checked by DFCC against an assigns clause that contains only objects reachable from its arguments, fresh allocations and ghost state (a write to a file-scope cache or counter fails an assigns obligation), and a scan of the goto symbol tables of all library translation units (three back ends) requires every static-lifetime object to be const (DFCC exempts function-local statics).',
        level_note='The quantifier over schedules is not explored. Assumed: the IDN library and libc functions used are thread-safe.',
        explanation='frame (assigns) obligations of the library functions discharged by CBMC/DFCC + symbol-table scan for mutable static-lifetime objects; schedule quantifier by meta-argument only',
        trusted_base=TB_COMMON, technique='CBMC/DFCC frame conditions (assigns clauses) + goto symbol table scan; no interleaving semantics')
    PROPS['C17'] = dict(
        level='proof', quick=ALL(['lemma_local', 'options_scan', 'is_6531_local+rfc20', 'is_ascii_domain+underscore', 'is_6531_local+rfc5322']),
        thorough=ALL(['is_6531_local', 'is_ascii_domain']),
        level_text='RFC6531_FOLLOW_RFC20: is_6531_local built with the option is proved equal to the automaton whose atom alphabet lacks # ^ ` { | } ~, and a lemma proves that this automaton differs from the default one exactly on those seven characters outside quotes. LABELS_ALLOW_UNDERSCORE: is_ascii_domain built with the option is proved equal to the host automaton with "_" as a letter. RFC6531_FOLLOW_RFC5322: is_6531_local built with the option is proved to follow, as long as only ASCII characters have been read, the RFC 5322 specification automaton that is_5322_local is proved against (both directions, every length), and to accept only input that is well-formed UTF-8 throughout. "Nothing else changes": the option macros occur in no other source file, and the Makefile defaults them OFF / maps ON to -D (text scan).',
        level_note='RFC6531_FOLLOW_RFC5322: what the option does to local parts that contain non-ASCII characters (quoted whitespace next to them, control characters in quotes) is not specified by the contract beyond UTF-8 well-formedness. The option / Makefile facts are text scans, not proof obligations. Combinations of options are not run (the three options touch disjoint #ifdef regions; RFC20 and RFC5322 both act in is_6531_local: the RFC20 cases sit in the unquoted switch, the RFC5322 ones in the quoted branch and the control-character test).',
        trusted_base=TB_COMMON, technique=TECH)
    PROPS['C20'] = dict(
        level='other', quick=ALL(['cli_parse_line', 'cli_sanitize', 'cli_parse_file_bounded', 'cli_main_bounded']),
        level_text='Mixed: two unbounded contract proofs and two bounded stand-ins. PROVED for every line of every length < 2^31 (job cli_parse_line, the body of the getline loop of parse_file, cut out of bin/main.c mechanically on every run): no access outside the line buffer; a line starting with "#" produces nothing; any other line leads to exactly one call eav_is_email(eav, t, n) with (t, n) the line after the trimming of the property (terminator LF / CRLF, one leading space, one trailing blank; a NUL inside the line ends it), exactly one PASS or FAIL record that agrees with that call and echoes sanitize_utf8(t, n), and the eav_errstr line after a FAIL. PROVED for every text of every length <= 2^31 (job cli_sanitize): sanitize_utf8 never writes outside its growing buffer, returns NUL-terminated text, and echoes text without control characters unchanged. BOUNDED (never counted as proved): the getline loop, prologue and epilogue of parse_file as a whole for files of <= 5 lines of <= 8 bytes (job cli_parse_file_bounded: one record per non-comment line in input order, file closed, every buffer released even though getline re-allocates on each call, no memory error), and main() for <= 2 file arguments (job cli_main_bounded: eav_init, eav_setup on the untouched defaults, one parse_file per argument, eav_free, exit status).',
        level_note='Why not one proof: DFCC loop contracts cannot carry a heap buffer that one iteration frees / re-allocates and the next one uses ("dynamic allocation is allowed", "ptr is freeable" are not provable after the loop havoc), so the loop of parse_file is split into its body (proved) and the loop skeleton (bounded). What is NOT decided: termination and memory safety of the loop skeleton beyond the bound; that the verdict printed equals the decision of the real library (the check pins the arguments handed to eav_is_email and that the record follows its answer; what eav_is_email decides is C01-C19); stdio itself, locale, real getline (models A8); files with 2^31 or more lines (int counters). The three CLI defects repaired earlier (empty line, one-blank line, long / invalid-UTF-8 line) are each an obligation of these jobs now.',
        explanation='contract proofs (CBMC/DFCC, unbounded) of the mechanically extracted loop body of parse_file and of sanitize_utf8, plus two bounded CBMC runs (unwinding assertions) of parse_file as a whole and of main(); the bounded jobs are listed under bounded_jobs_not_counted_as_proved',
        trusted_base=TB_COMMON + ['tools/extract_cli_body.py (the mechanical extraction of the loop body; its rules are must-fire, a mismatch makes the job undecided)'], technique=TECH)
