import argparse, json, os, re, shutil, sys, time, random
from concurrent.futures import ThreadPoolExecutor
from . import driver
from .driver import VERIF, REPO, BUILD, run_job

SAFETY_CLASSES = {
    'pointer_dereference', 'bounds', 'array_bounds', 'overflow', 'pointer_arithmetic', 'pointer',
    'pointer_primitives', 'undefined-shift', 'division-by-zero', 'assigns', 'frees', 'loop_decreases',
    'memory-leak', 'precondition_instance', 'no-body', 'unwind', 'recursion', 'enum-range', 'NaN',
    'alignment', 'free', 'deallocated', 'invalid_object', 'dead_object', 'decreases',
}
# assertions that belong to the safety class by their text
SAFETY_TEXT = ('abort() is unreachable', 'SAFETY:', 'free argument', 'double free', 'free called',
               'Check that', 'free()')


def ob_class(o):
    parts = o['name'].split('.')
    cls = parts[-2] if len(parts) >= 2 else ''
    return cls


def is_safety(o):
    if ob_class(o) in SAFETY_CLASSES:
        return True
    d = o['description']
    return any(t in d for t in SAFETY_TEXT)


def selector_ok(sel, o):
    if sel == 'all':
        return True
    if sel == 'safety':
        return is_safety(o)
    if sel == 'functional':
        return not is_safety(o)
    if sel.startswith('re:'):
        return re.search(sel[3:], o['description'] + ' ' + o['name']) is not None
    raise ValueError(sel)


def load_known():
    p = os.path.join(VERIF, 'known_findings.json')
    if not os.path.exists(p):
        return {'open': [], 'fixed': []}
    return json.load(open(p))


def main(argv):
    from . import props
    ap = argparse.ArgumentParser(prog='check')
    ap.add_argument('prop', nargs='?')
    ap.add_argument('--tier', default=os.environ.get('VERIF_TIER', 'quick'), choices=['quick', 'thorough'])
    ap.add_argument('--replay')
    ap.add_argument('--only')
    ap.add_argument('--keep', action='store_true')
    ap.add_argument('--list', action='store_true')
    ap.add_argument('--workers', type=int, default=int(os.environ.get('VERIF_WORKERS', '8')))
    a = ap.parse_args(argv)
    if a.list or not a.prop:
        for pid in sorted(props.PROPS):
            p = props.PROPS[pid]
            print(pid, 'quick:', ','.join(j for j, _ in p['quick']), '| thorough adds:',
                  ','.join(j for j, _ in p.get('thorough', [])))
        return 0
    if a.replay:
        from . import replay
        return replay.replay_file(a.replay)
    pid = a.prop
    if pid not in props.PROPS:
        print('unknown or unclaimed property', pid)
        return 2
    seed = int(os.environ.get('VERIF_SEED', '0') or 0)
    P = props.PROPS[pid]
    joblist = list(P['quick']) + (list(P.get('thorough', [])) if a.tier == 'thorough' else [])
    if a.only:
        only = set(a.only.split(','))
        joblist = [(j, s) for j, s in joblist if j in only]
        if not joblist:
            print('UNDECIDED property=%s: --only %s selects no job of tier %s' % (pid, a.only, a.tier))
            return 2
    t0 = time.time()
    runid = '%s-%d-%d' % (pid, os.getpid(), int(t0))
    work = os.path.join(BUILD, runid)
    os.makedirs(work, exist_ok=True)
    # generated specification inputs (always regenerated from /repo's current files)
    try:
        props.prepare(work)
    except Exception as e:
        print('UNDECIDED property=%s reason=prepare failed: %s' % (pid, e))
        return 2
    rnd = random.Random(seed)
    # distinct jobs (a job may appear with several selectors)
    names = []
    for j, _ in joblist:
        if j not in names:
            names.append(j)
    # longest first
    names.sort(key=lambda n: -props.JOBS[n].timeout)
    results = {}
    budget = MemBudget(int(os.environ.get('VERIF_MEM_GB', '44')))

    # the quick tier is meant to run on every change: it gives its answer within QUICK_BUDGET seconds
    # (a job that cannot finish in what is left is reported as undecided, never as a violation)
    deadline = (t0 + int(os.environ.get('VERIF_QUICK_BUDGET', '780'))) if a.tier == 'quick' else None

    def guarded(job, *args):
        import copy
        need = min(budget.total, job.mem_est * max(1, len(job.solvers)))
        budget.acquire(need)
        try:
            if deadline is not None:
                left = deadline - time.time()
                if left < 20:
                    r = driver.JobResult(job); r.reason = 'not started: the quick tier time budget was used up by other jobs'
                    return r
                if job.timeout > left:
                    job = copy.copy(job); job.timeout = int(left)
            return run_job(job, *args)
        finally:
            budget.release(need)
    with ThreadPoolExecutor(max_workers=a.workers) as ex:
        futs = {n: ex.submit(guarded, props.JOBS[n], os.path.join(work, n), a.keep,
                             ['-I' + work]) for n in names}
        for n, f in futs.items():
            try:
                results[n] = f.result()
            except Exception as e:
                r = driver.JobResult(props.JOBS[n]); r.reason = 'driver exception: %r' % e
                results[n] = r
    known = load_known()
    violations, undecided, known_hits = [], [], []
    total_ob = total_ok = 0
    jobs_ev, samples = [], []
    bounded_jobs = []
    for jn, sel in joblist:
        r = results[jn]
        job = r.job
        if r.status == 'undecided':
            undecided.append((jn, r.reason))
            jobs_ev.append(dict(job=jn, status='undecided', reason=r.reason[:400], selector=sel))
            continue
        obs = [o for o in r.obligations if selector_ok(sel, o)]
        bad = [o for o in obs if o['status'] == 'FAILURE']
        notok = [o for o in obs if o['status'] != 'SUCCESS']
        ev = dict(job=jn, selector=sel, function_under_contract=job.enforce, files=list(job.files),
                  callees_replaced_by_contract=list(job.replace), loop_contracts=bool(job.loops),
                  backend=r.backend, seconds=r.seconds, obligations=len(obs),
                  discharged=len(obs) - len(notok), reach_canaries=[c['description'] for c in r.reach],
                  note=job.note, bounded=job.bounded, cmds=r.cmds)
        jobs_ev.append(ev)
        if job.bounded:
            bounded_jobs.append(jn)
        else:
            total_ob += len(obs)
            total_ok += len(obs) - len(notok)
        pick = [o for o in obs if o['status'] == 'SUCCESS']
        rnd.shuffle(pick)
        for o in pick[:3]:
            samples.append(dict(job=jn, obligation=o['name'], description=o['description'],
                                where='%s:%s' % (o['file'], o['line']), status=o['status']))
        if notok and not bad:
            # selected obligations that CBMC neither discharged nor refuted (UNKNOWN after a refuted obligation
            # outside the selection on the same path): the property is undecided on this job, not violated
            undecided.append((jn, 'selected obligations not decided: ' + ', '.join('%s=%s' % (o['name'], o['status']) for o in notok[:4])))
        for o in bad:
            kf = match_known(known, pid, jn, o)
            if kf:
                known_hits.append((kf, jn, o))
            else:
                violations.append((jn, o, r))
    # ---- report
    os.makedirs(os.environ.get('VERIF_REPLAY_DIR') or os.path.join(VERIF, 'replays'), exist_ok=True)
    printed = set()
    for kf, jn, o in known_hits:
        key = kf.get('id')
        if key in printed:
            continue
        printed.add(key)
        print('KNOWN-FINDING: property=%s %s' % (pid, kf['what']))
    nviol = 0
    vio_ev = []
    # one VIOLATION line (and one replay file) per job that has refuted obligations; every refuted obligation is listed
    byjob = {}
    for jn, o, r in violations:
        byjob.setdefault(jn, (r, []))[1].append(o)
    for jn, (r, obs) in byjob.items():
        from . import replay
        for o in obs:
            print('FAILED-OBLIGATION job=%s obligation=%s "%s" at %s:%s' % (jn, o['name'], o['description'][:200], o['file'], o['line']))
        rp = replay.make_replay(pid, jn, obs, r, work)
        tail = '' if rp['replayed'] else ' no-failing-input-found'
        print('VIOLATION property=%s replay=%s%s' % (pid, rp['path'], tail))
        vio_ev.append(dict(job=jn, obligations=[o['name'] for o in obs], descriptions=[o['description'][:300] for o in obs], replay=rp['path'], replayed=rp['replayed']))
        nviol += 1
    # A job the verifier could not decide (tool error on changed code, e.g. a new loop without contract; timeout) is never
    # reported as a violation by itself.  But silence is not an answer either: the replay oracle (real code, guard off, against
    # the same specification macros) is run over its search space for the function of that job, and a concrete input on which
    # code and specification disagree is reported - it IS a failing input replayed against the real code.  This fallback is
    # differential testing, not deductive verification, and is labelled as such in the replay file and the evidence.
    still_undecided = []
    for jn, why in undecided:
        rp = None
        try:
            from . import replay, finders
            if jn in finders.KIND and jn in results:
                rp = replay.make_replay_undecided(pid, jn, why, results[jn], work)
        except Exception as e:
            rp = None
        if rp and rp['replayed']:
            print('UNDECIDED-BY-VERIFIER job=%s reason=%s' % (jn, why.replace('\n', ' ')[:300]))
            print('FAILED-REPLAY job=%s the replay oracle found an input on which the real code and the specification disagree (search, not proof): %s' % (jn, rp.get('input_text', '')))
            print('VIOLATION property=%s replay=%s' % (pid, rp['path']))
            vio_ev.append(dict(job=jn, obligations=[], descriptions=['verifier undecided (%s); concrete disagreement found by the replay oracle search' % why[:200]], replay=rp['path'], replayed=True))
            nviol += 1
        else:
            still_undecided.append((jn, why))
    undecided = still_undecided
    for jn, why in undecided:
        print('UNDECIDED job=%s reason=%s' % (jn, why.replace('\n', ' ')[:600]))
    wall = time.time() - t0
    # ---- evidence
    assumptions = list(P.get('assumptions', []))
    for jn in names:
        for s in props.JOBS[jn].assumptions:
            if s not in assumptions:
                assumptions.append(s)
    assumptions += ['mechanical scan: ' + s for s in driver.scan_assumes()]
    tb = list(P.get('trusted_base', [])) + ['cbmc/goto-cc/goto-instrument 6.11.0 (tool soundness, DFCC instrumentation)',
                                            'SAT back ends cadical / minisat2 as bundled with cbmc']
    ev = dict(property_id=pid, tier=a.tier, seed=seed, level=P['level'],
              coverage=dict(obligations=total_ob, discharged=total_ok,
                            checker_cmd='/verif/check %s --tier %s  (per job: goto-cc -> goto-instrument --dfcc --enforce-contract ... --apply-loop-contracts -> cbmc; exact commands under coverage.jobs[].cmds)' % (pid, a.tier),
                            trusted_base=tb, samples=samples[:12],
                            explanation=P.get('explanation', ''),
                            jobs=jobs_ev, bounded_jobs_not_counted_as_proved=bounded_jobs,
                            undecided_jobs=[j for j, _ in undecided],
                            known_findings=[kf['what'] for kf, _, _ in known_hits],
                            violations=vio_ev, tools=driver.tool_versions(),
                            repo_head=git_head()),
              assumptions=assumptions, wall_s=round(wall, 1), violations=nviol)
    evdir = os.environ.get('VERIF_EVIDENCE_DIR') or os.path.join(VERIF, 'evidence')
    os.makedirs(evdir, exist_ok=True)
    with open(os.path.join(evdir, pid + '.json'), 'w') as f:
        json.dump(ev, f, indent=1)
    if not a.keep:
        shutil.rmtree(work, ignore_errors=True)
    if nviol:
        return 1
    if undecided:
        return 2
    print('OK property=%s tier=%s jobs=%d obligations=%d discharged=%d wall=%.0fs' % (pid, a.tier, len(names), total_ob, total_ok, wall))
    return 0


class MemBudget:
    """jobs declare an estimated peak memory (GB per solver process); the sum of running jobs stays within the budget"""
    def __init__(self, total):
        import threading
        self.total = total; self.free = total; self.cv = threading.Condition()

    def acquire(self, n):
        with self.cv:
            while self.free < n:
                self.cv.wait()
            self.free -= n

    def release(self, n):
        with self.cv:
            self.free += n
            self.cv.notify_all()


def match_known(known, pid, jn, o):
    for kf in known.get('open', []):
        if kf.get('property') != pid:
            continue
        if kf.get('job') and kf['job'] != jn:
            continue
        if kf.get('obligation_re') and not re.search(kf['obligation_re'], o['name'] + ' ' + o['description']):
            continue
        return kf
    return None


def git_head():
    import subprocess
    try:
        h = subprocess.run(['git', '-C', REPO, 'rev-parse', '--short', 'HEAD'], capture_output=True, text=True).stdout.strip()
        d = subprocess.run(['git', '-C', REPO, 'status', '--porcelain', '--untracked-files=no'], capture_output=True, text=True).stdout.strip()
        return h + (' +dirty' if d else '')
    except Exception:
        return 'unknown'
