"""Concrete-input search and native replay (filled in per job kind)."""
import os, subprocess, json
from .driver import VERIF, REPO

FINDERS = {}


def find(job, o, rec, work):
    f = FINDERS.get(job.finder)
    if not f:
        return None
    return f(job, o, rec, work)


def native_replay(kind, input_hex, args):
    return {'disagree': False, 'note': 'no native oracle for ' + kind}
