"""Concrete-input search and native replay against the real code (DESIGN.md 5.2).

The verifier's own counterexample for a failed loop-contract obligation is the pre-state of one arbitrary
iteration, not an input; it is stored in the replay file.  A concrete failing input is then searched with the
native oracle (replay/oracle.c): the real functions, built from /repo's working tree with the guard OFF,
against the same specification macros the contracts use, over enumerated / structured inputs.  A hit is
re-run and stored; no hit => the violation is still reported, with no-failing-input-found."""
import os, subprocess, json, glob
from .driver import VERIF, REPO, sh

KIND = {
    'is_822_local': [('local822', [])], 'is_5321_local': [('local5321', [])], 'is_5322_local': [('local5322', [])],
    'is_6531_local': [('local6531', [])], 'utf8_decode_next': [('local6531', [])],
    'is_ascii_domain': [('host', [])], 'is_ipv4': [('ipv4', [])], 'is_ipv6': [('ipv6', [])],
    'is_ipaddr': [('email822', ['0'])],
    'is_special_domain_A': [('special', [])], 'is_special_domain_B': [('special', [])], 'is_special_domain_Aq': [('special', [])], 'is_special_domain_Bq': [('special', [])],
    'is_tld': [('tld', [])], 'tld_table': [('tld', [])],
    'eav_is_email': [('policy', [])], 'eav_is_email@idn': [('policy', [])], 'eav_is_email@idnkit': [('policy', [])],
}
for m in ('822', '5321', '5322'):
    for pth in ('host', 'literal'):
        KIND['email_%s_%s' % (m, pth)] = [('email' + m, ['0']), ('email' + m, ['1'])]


for pth in ('host', 'literal'):
    for sfx in ('', '@idn', '@idnkit'):
        KIND['email_6531_%s%s' % (pth, sfx)] = [('email6531', ['0']), ('email6531', ['1'])]


# option builds (C17): the oracle is compiled with the same -D, which selects the variant of the code and of the specification
OPTDEFS = {'is_6531_local+rfc20': ['-DRFC6531_FOLLOW_RFC20'], 'is_6531_local+rfc5322': ['-DRFC6531_FOLLOW_RFC5322'], 'is_ascii_domain+underscore': ['-DLABELS_ALLOW_UNDERSCORE']}
KIND.update({'is_6531_local+rfc20': [('local6531', [])], 'is_6531_local+rfc5322': [('local6531', [])], 'is_ascii_domain+underscore': [('host', [])], 'is_ipv6_anylen': [('ipv6', [])]})


def build_oracle(work, defs=()):
    d = os.path.join(work, 'oracle' + ''.join(x.replace('-D', '_') for x in defs))
    exe = os.path.join(d, 'oracle')
    if os.path.exists(exe):
        return exe
    os.makedirs(d, exist_ok=True)
    srcs = sorted(glob.glob(REPO + '/src/*.c')) + sorted(glob.glob(REPO + '/partial/idn2/*.c'))
    cmd = ['gcc', '-O1', '-w', '-D_DEFAULT_SOURCE', '-DHAVE_LIBIDN2'] + list(defs) + ['-I' + REPO + '/include', '-I' + REPO,
           '-I' + VERIF + '/spec', '-I' + work, os.path.join(VERIF, 'replay', 'oracle.c')] + srcs + ['-lidn2', '-o', exe]
    rc, out, err, _ = sh(cmd, timeout=300)
    if rc != 0:
        raise RuntimeError('native oracle build failed: ' + err[-800:])
    return exe


def native_replay(exe, kind, input_hex, args):
    rc, out, err, _ = sh([exe, kind, input_hex] + list(args), timeout=60)
    return dict(disagree=(rc == 1), output=out.strip().split('\n')[-3:], exit=rc)


def find_cli(job, rec, work):
    """C20: the real eav tool (ASan/UBSan build of the tree under test) against replay/cli_ref.c on a corpus of files"""
    import json as _json
    rc, out, err, s = sh(['python3', os.path.join(VERIF, 'replay', 'cli_oracle.py'), 'search', REPO, work], timeout=900)
    line = [l for l in out.split('\n') if l.startswith('FOUND') or l.startswith('NOTFOUND')]
    rec['native_search'] = [dict(kind='cli', result=(line[-1][:300] if line else 'error: ' + err[-300:]), seconds=round(s, 1))]
    if line and line[-1].startswith('FOUND'):
        d = _json.loads(line[-1][6:])
        arg = _json.dumps(dict(files=d['files']))
        rc2, out2, err2, _ = sh(['python3', os.path.join(VERIF, 'replay', 'cli_oracle.py'), 'replay', REPO, work, arg], timeout=300)
        return dict(oracle_kind='cli', oracle_args=[], input_hex=arg,
                    input_text='file(s) given to bin/eav: ' + ' | '.join(repr(bytes.fromhex(h))[:80] for h in d['files']) + '  -> ' + d['explanation'][:300],
                    native_cmd='replay/cli_oracle.py replay <repo> <work> \'%s\'  (bin/eav built with ASan/UBSan, guard off, against replay/cli_ref.c)' % arg[:200],
                    native_result=dict(disagree=(rc2 == 1), output=out2.strip().split('\n')[-2:], exit=rc2), replay_confirms=(rc2 == 1))
    return None


def find(job, o, rec, work):
    if job.name.startswith('cli_'):
        return find_cli(job, rec, work)
    kinds = KIND.get(job.name)
    if not kinds:
        return None
    exe = build_oracle(work, OPTDEFS.get(job.name, ()))
    rec['native_search'] = []
    for kind, args in kinds:
        rc, out, err, s = sh([exe, 'search', kind, '6', '6000000'] + args, timeout=400)
        line = [l for l in out.split('\n') if l.startswith('FOUND') or l.startswith('NOTFOUND')]
        rec['native_search'].append(dict(kind=kind, args=args, result=(line[-1] if line else 'error: ' + err[-200:]), seconds=round(s, 1)))
        if line and line[-1].startswith('FOUND'):
            parts = line[-1].split()
            hexs = parts[1] if parts[1] != '-' else ''
            rargs = list(args) if parts[1] != '-' else parts[2:]
            rp = native_replay(exe, kind, hexs, rargs)
            try:
                txt = bytes.fromhex(hexs).decode('utf-8', 'backslashreplace')
            except Exception:
                txt = ''
            return dict(oracle_kind=kind, oracle_args=rargs, oracle_defs=list(OPTDEFS.get(job.name, ())), input_hex=hexs, input_text=txt,
                        native_cmd='replay/oracle.c built against /repo (guard off): oracle %s %s %s' % (kind, hexs, ' '.join(rargs)),
                        native_result=rp, replay_confirms=rp['disagree'])
    return None
