"""From a failed obligation to a replay file (DESIGN.md 5.2)."""
import json, os, re, subprocess, time
from . import driver
from .driver import VERIF, REPO, run_job


def trace_summary(trace, limit=400):
    """compact list of the assignments of a CBMC json trace"""
    out = []
    for st in trace or []:
        if st.get('stepType') == 'assignment' and not st.get('hidden'):
            lhs = st.get('lhs', '')
            v = st.get('value', {})
            val = v.get('data', v.get('name', ''))
            loc = st.get('sourceLocation', {})
            out.append('%s=%s @%s:%s' % (lhs, val, os.path.basename(loc.get('file', '')), loc.get('line', '')))
        elif st.get('stepType') == 'failure':
            out.append('FAILURE %s: %s' % (st.get('property', ''), st.get('reason', '')))
    return out[-limit:]


def make_replay(pid, jn, obs, r, work):
    """obs: the refuted obligations of job jn (the first one is traced).  Returns dict(path=..., replayed=bool)"""
    from . import finders
    job = r.job
    o = obs[0]
    rec = dict(property=pid, job=jn, obligation=o['name'], description=o['description'],
               where='%s:%s' % (o['file'], o['line']), function=o['function'],
               all_failed_obligations=[dict(name=x['name'], description=x['description'], where='%s:%s' % (x['file'], x['line'])) for x in obs],
               cbmc_commands=r.cmds, replayed=False)
    # 1. the verifier's own counterexample for the first refuted obligation
    try:
        tr = run_job(job, os.path.join(work, jn + '.trace'), False, ['-I' + work], trace_property=o['name'])
        for ob in tr.obligations + tr.reach:
            if ob['name'] == o['name'] and ob.get('trace'):
                rec['verifier_trace'] = trace_summary(ob['trace'])
        rec['verifier_trace_status'] = tr.status + ' ' + tr.reason
    except Exception as e:
        rec['verifier_trace_status'] = 'trace run failed: %r' % e
    # 2. a concrete failing input, replayed natively against the real code
    try:
        found = finders.find(job, o, rec, work)
    except Exception as e:
        found = None
        rec['finder_error'] = repr(e)
    if found:
        rec.update(found)
        rec['replayed'] = bool(found.get('replay_confirms'))
    safe = re.sub(r'[^A-Za-z0-9_.-]', '_', '%s-%s' % (pid, jn))
    path = os.path.join(os.environ.get('VERIF_REPLAY_DIR') or os.path.join(VERIF, 'replays'), safe + '.json')
    os.makedirs(os.path.dirname(path), exist_ok=True)
    with open(path, 'w') as f:
        json.dump(rec, f, indent=1)
    return dict(path=path, replayed=rec['replayed'])


def make_replay_undecided(pid, jn, why, r, work):
    """the verifier did not decide job jn; look for a concrete disagreement with the native oracle"""
    from . import finders
    rec = dict(property=pid, job=jn, obligation=None, description='verifier undecided: ' + why[:500],
               found_by='replay oracle search (differential testing against the specification macros; not a refuted proof obligation)',
               cbmc_commands=r.cmds, replayed=False)
    found = finders.find(r.job, None, rec, work)
    if found:
        rec.update(found)
        rec['replayed'] = bool(found.get('replay_confirms'))
    safe = re.sub(r'[^A-Za-z0-9_.-]', '_', '%s-%s-undecided' % (pid, jn))
    path = os.path.join(os.environ.get('VERIF_REPLAY_DIR') or os.path.join(VERIF, 'replays'), safe + '.json')
    os.makedirs(os.path.dirname(path), exist_ok=True)
    with open(path, 'w') as f:
        json.dump(rec, f, indent=1)
    return dict(path=path, replayed=rec['replayed'], input_text=rec.get('input_text', ''))


def replay_file(path):
    from . import finders
    rec = json.load(open(path))
    if not rec.get('native_cmd'):
        print('replay file carries no concrete input (no-failing-input-found); failed obligation: %s "%s" at %s'
              % (rec.get('obligation'), rec.get('description'), rec.get('where')))
        return 1
    from . import props
    import tempfile, shutil
    work = tempfile.mkdtemp(prefix='replay', dir=os.path.join(VERIF, 'build') if os.path.isdir(os.path.join(VERIF, 'build')) else None)
    try:
        props.prepare(work)
        if rec.get('oracle_kind') == 'cli':
            rc, out, err, _ = finders.sh(['python3', os.path.join(VERIF, 'replay', 'cli_oracle.py'), 'replay', finders.REPO, work, rec['input_hex']], timeout=300)
            res = dict(disagree=(rc == 1), output=out.strip().split('\n')[-2:], exit=rc)
        else:
            exe = finders.build_oracle(work, tuple(rec.get('oracle_defs', ())))
            res = finders.native_replay(exe, rec['oracle_kind'], rec['input_hex'], rec.get('oracle_args', []))
    finally:
        shutil.rmtree(work, ignore_errors=True)
    print(json.dumps(res))
    print('input %r: real code and specification %s' % (rec.get('input_text', ''), 'DISAGREE (violation reproduced)' if res.get('disagree') else 'agree (not reproduced on this tree)'))
    return 1 if res.get('disagree') else 0
