/* job: parse_file (bin/main.c) -- property C20: for every sequence of lines (arbitrary bytes, any length, with or
   without LF / CRLF, empty lines, comment lines) no out-of-bounds access, everything released, exactly one PASS or
   FAIL record per non-comment line, the verdict is eav_is_email's answer for the trimmed line, the echoed text is
   that same trimmed line, a FAIL is followed by the eav_errstr line.  Loop contract over the getline loop; stdio,
   getline, strlen are models (A8); eav_is_email / eav_errstr / sanitize_utf8 are replaced by their contracts. */
#include <models_common.h>
#include <stdio.h>
#include <stdlib.h>
#include <string.h>
#include <sys/types.h>
#include <eav.h>

/* ---- ghost description of the file and of the line getline has just returned */
unsigned long g_remaining;                   /* lines left in the file (universally quantified, < 2^31: A8) */
char *g_line; size_t g_cap; ssize_t g_r;     /* buffer, its size, number of bytes read (>= 1) */
size_t g_nul;                                /* index of the first NUL byte in line[0..g_r] as read (g_r if the line has none) */
size_t g_end;                                /* where the line's content ends: before "\r\n" / "\n" / at g_r (captured before the code strips it) */
int g_first;                                 /* the first byte of the line as read */
int g_file_open, g_opened;
/* ---- ghost record of the output and of the calls */
enum { NONE, K_SANITIZE, K_ERRSTR };
int g_last_call;
unsigned long g_pass, g_fail, g_msg, g_other, g_lines, g_comments;
int g_last_kind;                             /* 1 = PASS record printed last, 2 = FAIL record, 3 = message line */
const char *rec_email; size_t rec_len; int rec_verdict, rec_calls;
const char *g_san_ret, *g_err_ret;

FILE *fopen(const char *path, const char *mode) { if (nondet_bool()) return (FILE *)0; g_file_open++; g_opened = 1; return stdin; }
int fclose(FILE *f) { __CPROVER_assert(g_file_open == 1, "SAFETY: fclose of the open file, once"); g_file_open--; return 0; }
char *strerror(int e) { return "model error text"; }

/* A8: getline: EOF, or a fresh NUL-terminated buffer holding >= 1 arbitrary bytes (the old buffer is released) */
ssize_t getline(char **lineptr, size_t *n, FILE *stream)
{
    __CPROVER_assert(g_file_open == 1, "getline is called on the open file");
    if (g_remaining == 0) return -1;
    g_remaining--;
    size_t r = nondet_size(), cap = nondet_size();
#ifdef CLI_BOUNDED
    __CPROVER_assume(r >= 1 && r <= CLI_BYTES && cap == r + 1);
#else
    __CPROVER_assume(r >= 1 && r < cap && cap <= ((size_t)1 << 31));
#endif
    if (*lineptr != NULL) free(*lineptr);
    char *b = malloc(cap); __CPROVER_assume(b != NULL);
    b[r] = 0;
    size_t z = nondet_size(); __CPROVER_assume(z <= r && b[z] == 0);   /* g_nul: a NUL is there; that it is the first one is the meaning of the ghost */
    *lineptr = b; *n = cap; g_line = b; g_cap = cap; g_r = (ssize_t)r; g_nul = z;
    return (ssize_t)r;
}
#define FIRST_NUL (g_nul < g_end ? g_nul : g_end)
/* A8: strlen inside the current line buffer, after the code has put a NUL where the content ends */
size_t strlen(const char *s)
{
    __CPROVER_assert(__CPROVER_same_object(s, g_line) && s >= g_line && (size_t)(s - g_line) <= FIRST_NUL, "strlen is applied inside the current line, at or before its end");
    __CPROVER_assert(g_line[g_end] == 0, "the line terminator has been replaced by NUL before the length is taken");
    return FIRST_NUL - (size_t)(s - g_line);
}

/* output model: which record is printed, in which order */
int fprintf(FILE *f, const char *fmt, ...)
{
    if (fmt[0] == 'P' && fmt[1] == 'A') {
        __CPROVER_assert(f == stdout && rec_calls == 1 && rec_verdict != 0 && g_last_call == K_SANITIZE, "PASS record: after eav_is_email said yes, with the sanitized trimmed line");
        g_pass++; g_last_kind = 1; g_last_call = NONE;
    } else if (fmt[0] == 'F' && fmt[1] == 'A') {
        __CPROVER_assert(f == stdout && rec_calls == 1 && rec_verdict == 0 && g_last_call == K_SANITIZE, "FAIL record: after eav_is_email said no, with the sanitized trimmed line");
        g_fail++; g_last_kind = 2; g_last_call = NONE;
    } else if (fmt[0] == ' ') {
        __CPROVER_assert(f == stdout && g_last_kind == 2 && g_last_call == K_ERRSTR, "message line: right after a FAIL record, with eav_errstr's text");
        g_msg++; g_last_kind = 3; g_last_call = NONE;
    } else {
        __CPROVER_assert(f == stderr, "everything else goes to stderr");
        if (g_other < 1000) g_other++;
    }
    return 0;
}

/* expected trimming (property: line terminator, one leading space, one trailing blank) */
#define EXP_OFF ((size_t)(g_first == ' ' ? 1 : 0))
#define EXP_RAW (FIRST_NUL - EXP_OFF)
#define EXP_LEN ((EXP_RAW > 0 && (g_line[EXP_OFF + EXP_RAW - 1] == ' ' || g_line[EXP_OFF + EXP_RAW - 1] == '\t' || g_line[EXP_OFF + EXP_RAW - 1] == 0)) ? EXP_RAW - 1 : EXP_RAW)

#ifdef CLI_BOUNDED
/* bounded job: no contracts; the library calls are stubs that check what they are given, sanitize_utf8 is the real one */
int eav_is_email(eav_t *eav, const char *email, size_t length)
{
    __CPROVER_assert(rec_calls == 0 && email == g_line + EXP_OFF && length == EXP_LEN && email[length] == 0, "the library is asked, once per line, about exactly the trimmed line (terminator, one leading space, one trailing blank removed)");
    rec_email = email; rec_len = length; rec_calls++; rec_verdict = nondet_bool();
    return rec_verdict;
}
const char *eav_errstr(eav_t *eav) { g_last_call = K_ERRSTR; return "model message"; }
#define sanitize_utf8 real_sanitize_utf8
#else
int eav_is_email(eav_t *eav, const char *email, size_t length)
/* the library is asked about exactly the trimmed line */
__CPROVER_requires(rec_calls == 0 && email == g_line + EXP_OFF && length == EXP_LEN && email[length] == 0)
__CPROVER_assigns(rec_email, rec_len, rec_verdict, rec_calls)
__CPROVER_ensures(rec_email == email && rec_len == length && rec_verdict == __CPROVER_return_value && rec_calls == 1 && (__CPROVER_return_value == 0 || __CPROVER_return_value == 1))
;
const char *eav_errstr(eav_t *eav)
__CPROVER_assigns(g_last_call)
__CPROVER_ensures(g_last_call == K_ERRSTR && __CPROVER_return_value == g_err_ret)
;
/* proved in job cli_sanitize; here: it is given exactly the text that was validated */
const char *sanitize_utf8(const char *text, size_t length)
__CPROVER_requires(text == rec_email && length == rec_len)
__CPROVER_assigns(g_last_call)
__CPROVER_ensures(g_last_call == K_SANITIZE && __CPROVER_return_value == g_san_ret)
;
#endif

#define COUNTS_OK (g_pass + g_fail + g_comments == g_lines && g_msg == g_fail && g_lines + g_remaining == g_total && \
                   passed >= 0 && failed >= 0 && (unsigned long)passed == g_pass && (unsigned long)failed == g_fail)
unsigned long g_total;

#define EAV_VERIF_LOOP_parse_file \
    __CPROVER_assigns(read, line, len, cp, passed, failed, g_remaining, g_line, g_cap, g_r, g_nul, g_end, g_first, g_last_call, g_pass, g_fail, g_msg, g_lines, g_comments, g_last_kind, \
                      rec_email, rec_len, rec_verdict, rec_calls) \
    __CPROVER_loop_invariant(g_file_open == 1 && g_total < ((unsigned long)1 << 31) && (line == NULL || line == g_line) && COUNTS_OK) \
    __CPROVER_decreases(g_remaining)

/* ghost step at the top of the body: a line has just been read */
#define EAV_VERIF_STEP_parse_file \
    g_lines++; rec_calls = 0; g_first = (int)(unsigned char)line[0]; \
    g_end = (read >= 2 && line[read - 2] == '\r' && line[read - 1] == '\n') ? (size_t)read - 2 : (line[read - 1] == '\n') ? (size_t)read - 1 : (size_t)read; \
    if (g_first == '#') g_comments++;

#ifndef CLI_BOUNDED
static void parse_file(const char *file, eav_t *eav)
__CPROVER_requires(g_file_open == 0 && g_opened == 0 && g_pass == 0 && g_fail == 0 && g_msg == 0 && g_lines == 0 && g_comments == 0 && g_other == 0 && g_remaining == g_total && g_total < ((unsigned long)1 << 31))
__CPROVER_requires(g_line == NULL)
__CPROVER_assigns(g_remaining, g_line, g_cap, g_r, g_nul, g_end, g_first, g_last_call, g_pass, g_fail, g_msg, g_other, g_lines, g_comments, g_last_kind, rec_email, rec_len, rec_verdict, rec_calls, g_file_open, g_opened)
/* the file is closed again; every line was read; exactly one verdict per non-comment line; every FAIL has its message line */
__CPROVER_ensures(g_file_open == 0)
__CPROVER_ensures(g_opened ==> (g_remaining == 0 && g_lines == g_total && g_pass + g_fail == g_lines - g_comments && g_msg == g_fail))
;
#else
#undef EAV_VERIF_LOOP_parse_file
#define EAV_VERIF_LOOP_parse_file
#endif

#define main eav_tool_main
#include <bin/main.c>
#undef main

#ifdef CLI_BOUNDED
#undef sanitize_utf8
/* stand-in for sanitize_utf8 (which has its own unbounded proof, job cli_sanitize): checks that it is given the validated text */
const char *sanitize_utf8(const char *text, size_t length)
{
    __CPROVER_assert(text == rec_email && length == rec_len, "the echoed text is exactly the text that was validated");
    g_last_call = K_SANITIZE;
    return "model text";
}
#endif

void harness(void)
{
    const char *f; eav_t *e;
#ifdef CLI_BOUNDED
    /* bound of this job: files of at most CLI_LINES lines of at most CLI_BYTES bytes each (terminator included) */
    g_total = nondet_size(); __CPROVER_assume(g_total <= CLI_LINES); g_remaining = g_total;
#endif
    parse_file(f, e);
#ifdef CLI_BOUNDED
    __CPROVER_assert(g_file_open == 0, "the file is closed again");
    __CPROVER_assert(!g_opened || (g_remaining == 0 && g_lines == g_total && g_pass + g_fail == g_lines - g_comments && g_msg == g_fail), "exactly one PASS/FAIL record per non-comment line, every FAIL followed by its message line");
#endif
    __CPROVER_assert(!(g_opened && g_total == 2 && g_comments == 1 && g_fail == 1), "REACH: a file of two lines");
    __CPROVER_assert(!(!g_opened), "REACH: file cannot be opened");
}
