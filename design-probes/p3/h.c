#include <stddef.h>
#include <stdbool.h>
#include <stdlib.h>
#include <eav.h>
#include <eav/auto_tld.h>
int rec_cb_which; int rec_cb_calls; const char *rec_cb_email; size_t rec_cb_len; bool rec_cb_tld; eav_result_t *rec_cb_result;
int g_rc, g_idn_rc;
#define CB_CONTRACT(ID) \
__CPROVER_assigns(rec_cb_which, rec_cb_calls, rec_cb_email, rec_cb_len, rec_cb_tld, rec_cb_result) \
__CPROVER_ensures(rec_cb_which == ID && rec_cb_calls == __CPROVER_old(rec_cb_calls) + 1 && rec_cb_email == email && rec_cb_len == length && rec_cb_tld == tld_check) \
__CPROVER_ensures(__CPROVER_is_fresh(__CPROVER_return_value, sizeof(eav_result_t)) && rec_cb_result == __CPROVER_return_value) \
__CPROVER_ensures(__CPROVER_return_value->rc == g_rc && __CPROVER_return_value->idn_rc == g_idn_rc)
eav_result_t *is_822_email(const char *email, size_t length, bool tld_check) CB_CONTRACT(822);
eav_result_t *is_5321_email(const char *email, size_t length, bool tld_check) CB_CONTRACT(5321);
eav_result_t *is_5322_email(const char *email, size_t length, bool tld_check) CB_CONTRACT(5322);
eav_result_t *is_6531_email(const char *email, size_t length, bool tld_check) CB_CONTRACT(6531);
const char *g_strerror_ret;
const char *idn2_strerror(int rc) { return g_strerror_ret; }
void abort(void) { __CPROVER_assert(0, "abort() reachable"); __CPROVER_assume(0); }

#define BIT(rc) (1 << ((rc) + 1))
int eav_is_email(eav_t *eav, const char *email, size_t length)
__CPROVER_requires(__CPROVER_is_fresh(eav, sizeof(*eav)))
__CPROVER_requires(eav->result == NULL || __CPROVER_is_fresh(eav->result, sizeof(eav_result_t)))
__CPROVER_requires(eav->utf8 ? eav->utf8_cb == is_6531_email : (eav->ascii_cb == is_822_email || eav->ascii_cb == is_5321_email || eav->ascii_cb == is_5322_email))
__CPROVER_requires(g_rc <= TLD_TYPE_RETIRED && rec_cb_calls == 0)
__CPROVER_assigns(eav->idnmsg, eav->result, eav->errcode, rec_cb_which, rec_cb_calls, rec_cb_email, rec_cb_len, rec_cb_tld, rec_cb_result)
__CPROVER_frees(eav->result)
__CPROVER_ensures(rec_cb_calls == 1 && rec_cb_email == email && rec_cb_len == length && rec_cb_tld == eav->tld_check && eav->result == rec_cb_result)
__CPROVER_ensures(rec_cb_which == (eav->utf8 ? 6531 : eav->ascii_cb == is_822_email ? 822 : eav->ascii_cb == is_5321_email ? 5321 : 5322))
__CPROVER_ensures(g_rc == 0 ==> (__CPROVER_return_value == 1 && eav->errcode == EEAV_NO_ERROR))
__CPROVER_ensures(g_rc < 0 ==> (__CPROVER_return_value == 0 && eav->errcode == -g_rc))
__CPROVER_ensures(g_rc > 0 ==> (__CPROVER_return_value == ((eav->allow_tld & BIT(g_rc)) != 0) && eav->errcode == (__CPROVER_return_value ? EEAV_NO_ERROR : EEAV_TLD_INVALID + g_rc)))
__CPROVER_ensures(eav->idnmsg == ((g_rc == -EEAV_IDN_ERROR) ? g_strerror_ret : NULL))
__CPROVER_ensures(__CPROVER_return_value == (eav->errcode == EEAV_NO_ERROR))
;
void harness(void){ eav_t *e; const char *s; size_t n; eav_is_email(e,s,n); }
