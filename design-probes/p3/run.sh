set -e
goto-cc -D__NO_CTYPE -I/repo/include -D_DEFAULT_SOURCE -DHAVE_LIBIDN2 --function harness h.c ${SRC:-/repo/partial/idn2/eav.c} /repo/src/eav.c -o a.gb
goto-instrument --no-malloc-may-fail --dfcc harness --enforce-contract eav_is_email --replace-call-with-contract is_822_email --replace-call-with-contract is_5321_email --replace-call-with-contract is_5322_email --replace-call-with-contract is_6531_email a.gb b.gb 2>&1 | grep -iE "error|warn|invariant" || true
timeout 300 cbmc b.gb --no-malloc-may-fail --bounds-check --pointer-check --signed-overflow-check --pointer-overflow-check "$@"
