/* job: is_6531_local built with -DRFC6531_FOLLOW_RFC5322 (src/is_6531_local.c, decoder inlined) -- C17, third option:
   "makes mode 6531 judge pure-ASCII local parts as mode 5322 does".  Claim of this job: as long as only ASCII
   characters have been read (ghost g_nonascii == 0), the scanner follows the RFC 5322 specification automaton, so for a
   pure-ASCII local part the decision is exactly mode 5322's.  What the option does to local parts WITH non-ASCII
   characters is not covered (DESIGN.md 11.5: it does not leave them unchanged). */
#include <models_common.h>
#include <scan_common.h>
#include <spec_local.h>
#include <spec_utf8.h>

int g_nonascii;       /* a character > 127 has been read */
#define BYTE_K(s, i, n) (((i) < (n)) ? BYTE_AT((s) + (i)) : -1)

int is_6531_local(const char *start, const char *end)
__CPROVER_requires(RANGE_REQ(start, end, (size_t)0x7ffffff0))
__CPROVER_requires(g_state == L_START && g_pos == 0 && g_cur == -1 && g_nonascii == 0)
__CPROVER_assigns(g_state, g_pos, g_cur, g_nonascii)
__CPROVER_ensures((__CPROVER_return_value == 0 && !g_nonascii) ==> (g_pos == g_len && L_ACC(g_state)))
__CPROVER_ensures((__CPROVER_return_value != 0 && !g_nonascii) ==> (g_len == 0 || (__CPROVER_return_value == -EEAV_LPART_INVALID_UTF8 && g_pos < g_len) || g_state == L_DEAD || (g_pos == g_len && !L_ACC(g_state))))
__CPROVER_ensures((__CPROVER_return_value == -EEAV_LPART_EMPTY) == (g_len == 0))
;

#define U_OK (u.the_input == start && u.the_length == (int)g_len && u.the_index >= 0 && u.the_index <= u.the_length && \
              u.the_char >= 0 && u.the_char <= u.the_index && u.the_byte >= 0 && u.the_byte <= u.the_index)

#define EAV_VERIF_LOOP_is_6531_local \
    __CPROVER_assigns(ch, prev, quote, qpair, u.the_index, u.the_byte, u.the_char, g_state, g_pos, g_cur, g_nonascii) \
    __CPROVER_loop_invariant(U_OK && g_pos == (size_t)u.the_index && (g_nonascii == 0 || g_nonascii == 1) \
        && (quote==0||quote==1) && (qpair==0||qpair==1) && (!quote ==> !qpair) \
        && (u.the_index == 0) == (prev == -1) && prev >= -1 && prev < u.the_index \
        && (!g_nonascii ==> ( \
              (!quote ==> g_state == ((prev < 0 || start[prev] == '.') ? L_START : (start[prev] == '"') ? L_QEND : L_ATOM)) \
           && ((quote && qpair) ==> g_state == L_QPAIR) \
           && ((quote && !qpair) ==> (prev >= 0 && (L_IS_DQWS(start[prev]) ? g_state == L_QDQWS : g_state == L_QOTHER))) \
           && ((!quote && prev >= 0 && start[prev] == '.') ==> (prev + 1 == u.the_index && u.the_index < u.the_length)) \
           && (prev >= 0 ==> (BYTE_AT(start + prev) <= 127 && prev + 1 == u.the_index))))) \
    __CPROVER_decreases(u.the_length - u.the_index)

#define GHOST_CONSUME \
    if (ch > 127) g_nonascii = 1; \
    g_cur = ch; g_state = SPEC5322_STEP(g_state, (ch > 127 ? 128 : ch)); g_pos = (size_t)u.the_index;
#define EAV_VERIF_STEP_is_6531_local GHOST_CONSUME
/* the whitespace branch has just decoded the character that follows the whitespace: the ghost consumes it too */
#define EAV_VERIF_AT_is_6531_local_fws GHOST_CONSUME

#include <src/is_6531_local.c>

void harness(void)
{
    const char *s, *e;
    int r = is_6531_local(s, e);
    __CPROVER_assert(!(r == 0 && !g_nonascii && g_len >= 6), "REACH: pure-ASCII local part accepted");
    __CPROVER_assert(!(r == -EEAV_LPART_UNQUOTED_FWS && !g_nonascii), "REACH: unquoted whitespace rejected");
    __CPROVER_assert(!(r != 0 && !g_nonascii && g_pos == g_len), "REACH: rejected at the end");
}
