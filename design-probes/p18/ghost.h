#include <stddef.h>
enum { P_START, P_DIG, P_DOT, P_DEAD };
extern int q_ph, q_cnt, q_val, q_firstnz; extern size_t g_pos, g_len;
#define Q_STEP(c) { int c_ = (c); \
  if (c_ >= '0' && c_ <= '9') { \
     if (q_ph == P_START || q_ph == P_DOT) { if (q_cnt < 4) { q_ph = P_DIG; q_cnt++; q_val = c_ - '0'; } else q_ph = P_DEAD; } \
     else if (q_ph == P_DIG) { if (q_val * 10 + (c_ - '0') <= 255) q_val = q_val * 10 + (c_ - '0'); else q_ph = P_DEAD; } } \
  else if (c_ == '.') { if (q_ph == P_DIG) { if (q_cnt == 1 && q_val != 0) q_firstnz = 1; q_ph = P_DOT; } else q_ph = P_DEAD; } \
  else q_ph = P_DEAD; \
  g_pos++; }
#define Q_ACC (q_ph == P_DIG && q_cnt == 4)
