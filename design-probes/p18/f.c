#include <stdio.h>
#include <eav.h>
#include <string.h>
#include <eav/private.h>
#include "ghost.h"
extern int
is_ipv4 (const char *start, const char *end)
{
    const char *cp;
    int ch;
    int in_byte = 0;
    int byte_val = 0;
    int byte_count = 0;
#define BYTES_NEEDED 4


    for (cp = start; cp < end && (ch = *(unsigned const char *) cp) != 0; cp++)
    __CPROVER_assigns(cp, ch, in_byte, byte_val, byte_count, q_ph, q_cnt, q_val, q_firstnz, g_pos)
    __CPROVER_loop_invariant(__CPROVER_same_object(cp,start) && __CPROVER_POINTER_OFFSET(cp) >= __CPROVER_POINTER_OFFSET(start) && __CPROVER_POINTER_OFFSET(cp) <= __CPROVER_POINTER_OFFSET(end)
        && g_pos == (size_t)(cp - start) && (in_byte == 0 || in_byte == 1) && byte_count >= 0 && (size_t)byte_count <= g_pos + 1 && byte_val >= 0 && byte_val <= 255
        && (q_ph != P_DEAD ==> (byte_count == q_cnt && q_cnt <= 4 && in_byte == (q_ph == P_DIG) && (q_ph == P_DIG ==> byte_val == q_val) && (q_ph == P_START) == (cp == start) && (q_ph == P_START ==> byte_count == 0)))
        && (q_ph == P_DEAD ==> byte_count > 4)
        && (q_ph == P_DOT ==> (cp < end && cp[0] != 0 && cp > start && cp[-1] == 46)))
    __CPROVER_decreases(end - cp)
    {
        Q_STEP(ch)
        if (ISDIGIT(ch)) {
            if (in_byte == 0) {
                in_byte = 1;
                byte_val = 0;
                byte_count++;
            }
            byte_val *= 10;
            byte_val += ch - '0';
            if (byte_val > 255) {
                /* invalid octet */
                return (NO);
            }
        }
        else if (ch == '.') {
            if (in_byte == 0 || cp + 1 == end || cp[1] == 0) { /* FIX D6 */
                /* misplaced dot */
                return (NO);
            }
            /* XXX Allow 0.0.0.0 but not 0.1.2.3 */
            if (byte_count == 1 && byte_val == 0 && start[strspn(start, "0.")]) {
                return (NO);
            }
            /* try next byte */
            in_byte = 0;
        }
        else {
            /* invalid character */
            return (NO);
        }
    }

    if (byte_count != BYTES_NEEDED) {
        /* invalid octet count */
        return (NO);
    }

    return (YES);
}


