#include "ghost.h"
int q_ph, q_cnt, q_val, q_firstnz; size_t g_pos, g_len;
int isascii(int c){ return (c & ~0x7f) == 0; }
size_t nondet_size(void);
size_t strspn(const char *p, const char *set){ size_t k = nondet_size(); __CPROVER_assume(k <= g_len); return k; } /* only its truth value matters; over-approximated */
int is_ipv4(const char *start, const char *end)
__CPROVER_requires(g_len <= 0x7ffffff0 && __CPROVER_is_fresh(start, g_len + 1) && __CPROVER_pointer_in_range_dfcc(start, end, start + g_len) && end == start + g_len && start[g_len] == ']')
__CPROVER_requires(q_ph == P_START && q_cnt == 0 && q_val == 0 && q_firstnz == 0 && g_pos == 0)
__CPROVER_assigns(q_ph, q_cnt, q_val, q_firstnz, g_pos)
__CPROVER_ensures(__CPROVER_return_value != 0 ==> (g_pos == g_len ? Q_ACC : start[g_pos] == 0))
;
void harness(void){ const char *s,*e; int r = is_ipv4(s,e); __CPROVER_assert(!(r != 0 && g_pos == g_len), "REACH accept"); __CPROVER_assert(!(r == 0 && g_pos == g_len), "REACH reject at end"); }
