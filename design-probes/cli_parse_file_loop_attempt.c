/* SHELVED (2026-10-02): symbolic execution takes 60 s, then the conversion to SAT does not finish within 10 minutes / 9 GB
   (deeply nested pointer-typed if-then-else, also with --no-standard-checks); not registered as a job.  Kept as the starting
   point for an unbounded proof of the loop skeleton of parse_file. */
/* job: parse_file (bin/main.c) as a whole, UNBOUNDED, by loop contract -- property C20, the loop skeleton:
   for every file (any number of lines < 2^31, any line length < 2^31, arbitrary bytes) parse_file terminates (the variant
   is the number of lines left), reads every line, prints exactly one PASS or FAIL record per non-comment line and the
   eav_errstr line after each FAIL, one summary line at the end, closes the file, and hands every buffer it got from
   getline back (to getline, or to free at the end) - also when the file cannot be opened.

   What makes this provable with DFCC: no malloc/free inside the loop.  getline is modelled as a bump allocator over one
   arena object that exists before the call (A8'): each call hands out the next `cap` bytes of the arena, with arbitrary
   content, and does the ghost bookkeeping of glibc's getline (the old buffer counts as released iff the caller hands it
   back with a non-zero size).  `free` is a ghost operation here.  The price: an access beyond the current line but inside
   the arena is not flagged by this job - the memory safety of the per-line code is the business of job cli_parse_line
   (a fresh object per line), and the real malloc/free discipline is exercised by the bounded job cli_parse_file_bounded.
   What is said about each line here is only what the skeleton needs (one library call, one record); the exact arguments
   are pinned in job cli_parse_line. */
#include <models_common.h>
#include <stdio.h>
#include <stdlib.h>
#include <string.h>
#include <sys/types.h>
#include <eav.h>

char *g_arena; size_t g_arena_size, g_used;
unsigned long g_total, g_remaining;
char *g_line; ssize_t g_r;
int g_file_open, g_opened, g_live;
enum { NONE, K_SANITIZE, K_ERRSTR };
int g_last_call, g_last_kind;
unsigned long g_pass, g_fail, g_msg, g_other, g_lines, g_comments, g_summary;
int rec_verdict, rec_calls;
const char *g_san_ret, *g_err_ret;
static FILE g_file_obj;

FILE *fopen(const char *path, const char *mode) { if (nondet_bool()) return (FILE *)0; g_file_open++; g_opened = 1; return &g_file_obj; }
int fclose(FILE *f) { __CPROVER_assert(g_file_open == 1 && f == &g_file_obj, "fclose of the open file, once"); g_file_open--; return 0; }
char *strerror(int e) { return "model error text"; }

ssize_t getline(char **lineptr, size_t *n, FILE *stream)
{
    __CPROVER_assert(g_file_open == 1 && stream == &g_file_obj, "getline is called on the open file");
    if (g_remaining == 0) return -1;
    g_remaining--;
    size_t r = nondet_size(), cap = nondet_size();
    __CPROVER_assume(r >= 1 && r < cap && cap <= ((size_t)1 << 31) && cap <= g_arena_size - g_used);
    if (*lineptr != NULL && *n != 0) g_live--;          /* glibc: the old buffer is re-used / released only if the caller hands it back with its size */
    char *b = g_arena + g_used; g_used += cap; g_live++;
    b[r] = 0;
    *lineptr = b; *n = cap; g_line = b; g_r = (ssize_t)r;
    char b0 = b[0];
    g_lines++; rec_calls = 0; g_last_kind = 0; g_last_call = NONE;
    if (b0 == '#') g_comments++;
    return (ssize_t)r;
}
void model_free(void *p) { if (p != NULL && p == (void *)g_line) g_live--; }

/* strlen inside the current line: some NUL at or before the end of what was read (which one is cli_parse_line's business) */
size_t strlen(const char *s)
{
    __CPROVER_assert(__CPROVER_same_object(s, g_line) && s >= g_line && s <= g_line + g_r, "strlen is applied inside the current line");
    size_t k = nondet_size();
    __CPROVER_assume(k <= (size_t)(g_line + g_r - s));
    char c = s[k];
    __CPROVER_assume(c == 0);
    return k;
}

#define FIRST_ARG_(a, ...) a
#define fprintf(f, fmt, ...) model_fprintf(f, fmt, (const void *)(FIRST_ARG_(__VA_ARGS__, 0)))
int model_fprintf(FILE *f, const char *fmt, const void *arg)
{
    char f0 = fmt[0], f1 = fmt[1];
    if (f0 == 'P' && f1 == 'A') {
        __CPROVER_assert(rec_calls == 1 && rec_verdict != 0 && g_last_call == K_SANITIZE && g_last_kind == 0 && arg == (const void *)g_san_ret, "PASS record: once, after eav_is_email said yes, with sanitize_utf8's text");
        g_pass++; g_last_kind = 1; g_last_call = NONE;
    } else if (f0 == 'F' && f1 == 'A') {
        __CPROVER_assert(rec_calls == 1 && rec_verdict == 0 && g_last_call == K_SANITIZE && g_last_kind == 0 && arg == (const void *)g_san_ret, "FAIL record: once, after eav_is_email said no, with sanitize_utf8's text");
        g_fail++; g_last_kind = 2; g_last_call = NONE;
    } else if (f0 == ' ') {
        __CPROVER_assert(g_last_kind == 2 && g_last_call == K_ERRSTR && arg == (const void *)g_err_ret, "message line: right after the FAIL record, with eav_errstr's text");
        g_msg++; g_last_kind = 3; g_last_call = NONE;
    } else if (f0 == '%') {
        g_summary++;
    } else {
        if (g_other < 1000) g_other++;
    }
    return 0;
}

int eav_is_email(eav_t *eav, const char *email, size_t length)
__CPROVER_requires(rec_calls == 0)
__CPROVER_assigns(rec_verdict, rec_calls)
__CPROVER_ensures(rec_verdict == __CPROVER_return_value && rec_calls == 1 && (__CPROVER_return_value == 0 || __CPROVER_return_value == 1))
;
const char *eav_errstr(eav_t *eav)
__CPROVER_assigns(g_last_call)
__CPROVER_ensures(g_last_call == K_ERRSTR && __CPROVER_return_value == g_err_ret)
;

#define COUNTS_OK (g_pass + g_fail + g_comments == g_lines && g_msg == g_fail && g_lines + g_remaining == g_total && g_total < ((unsigned long)1 << 31) && \
                   passed >= 0 && failed >= 0 && (unsigned long)passed == g_pass && (unsigned long)failed == g_fail && g_summary == 0)
/* the buffer protocol: no buffer yet, or exactly one live buffer, the one getline handed out last, with its size intact */
#define BUFFER_OK (line == NULL ? (g_live == 0 && g_line == NULL) : (line == g_line && g_live == 1 && cap != 0))

#define EAV_VERIF_LOOP_parse_file \
    __CPROVER_assigns(read, line, cap, len, cp, passed, failed, g_remaining, g_used, g_live, g_line, g_r, g_lines, g_comments, g_pass, g_fail, g_msg, \
                      g_last_kind, g_last_call, rec_verdict, rec_calls, __CPROVER_object_whole(g_arena)) \
    __CPROVER_loop_invariant(g_file_open == 1 && fh == &g_file_obj && g_used <= g_arena_size && COUNTS_OK && BUFFER_OK) \
    __CPROVER_decreases(g_remaining)
#define EAV_VERIF_STEP_parse_file

#include <bin/main.h>
const char *sanitize_utf8(const char *text, size_t length)
__CPROVER_requires(rec_calls == 1)
__CPROVER_assigns(g_last_call)
__CPROVER_ensures(g_last_call == K_SANITIZE && __CPROVER_return_value == g_san_ret)
;

#define free(p) model_free(p)
#define main eav_tool_main
#include <bin/main.c>
#undef main
#undef free

static void parse_file(const char *file, eav_t *eav)
__CPROVER_requires(g_arena_size <= ((size_t)1 << 45) && __CPROVER_is_fresh(g_arena, g_arena_size) && g_used == 0)
__CPROVER_requires(g_file_open == 0 && g_opened == 0 && g_live == 0 && g_line == NULL && g_pass == 0 && g_fail == 0 && g_msg == 0 && g_lines == 0 && g_comments == 0 && g_other == 0 && g_summary == 0 && g_remaining == g_total && g_total < ((unsigned long)1 << 31))
__CPROVER_assigns(g_remaining, g_used, g_live, g_line, g_r, g_lines, g_comments, g_pass, g_fail, g_msg, g_other, g_summary, g_last_kind, g_last_call, rec_verdict, rec_calls, g_file_open, g_opened, __CPROVER_object_whole(g_arena))
__CPROVER_ensures(g_file_open == 0 && g_live == 0)
__CPROVER_ensures(g_opened ==> (g_remaining == 0 && g_lines == g_total && g_pass + g_fail == g_lines - g_comments && g_msg == g_fail && g_summary == 1))
__CPROVER_ensures(!g_opened ==> (g_lines == 0 && g_pass == 0 && g_fail == 0))
;

void harness(void)
{
    const char *f; eav_t *e;
    parse_file(f, e);
    __CPROVER_assert(!(g_opened && g_total >= 3 && g_comments >= 1 && g_fail >= 1 && g_pass >= 1), "REACH: a file with comment, passing and failing lines");
    __CPROVER_assert(!(!g_opened), "REACH: file cannot be opened");
}
