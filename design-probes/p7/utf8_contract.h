#include <stddef.h>
#include "/repo/src/utf8_decode.h"
/* Unicode Table 3-7 well-formed UTF-8 byte sequences over the next (up to) four bytes b0..b3 (-1 = not available) */
#define IN(x,lo,hi) ((x) >= (lo) && (x) <= (hi))
#define WF1 (IN(g_b0,0x00,0x7F))
#define WF2 (IN(g_b0,0xC2,0xDF) && IN(g_b1,0x80,0xBF))
#define WF3 (( (g_b0==0xE0 && IN(g_b1,0xA0,0xBF)) || (IN(g_b0,0xE1,0xEC) && IN(g_b1,0x80,0xBF)) || \
               (g_b0==0xED && IN(g_b1,0x80,0x9F)) || (IN(g_b0,0xEE,0xEF) && IN(g_b1,0x80,0xBF)) ) && IN(g_b2,0x80,0xBF))
#define WF4 (( (g_b0==0xF0 && IN(g_b1,0x90,0xBF)) || (IN(g_b0,0xF1,0xF3) && IN(g_b1,0x80,0xBF)) || \
               (g_b0==0xF4 && IN(g_b1,0x80,0x8F)) ) && IN(g_b2,0x80,0xBF) && IN(g_b3,0x80,0xBF))
#define WFLEN (WF1?1:WF2?2:WF3?3:WF4?4:0)
#define CPV (WF1 ? g_b0 : WF2 ? (((g_b0&0x1F)<<6)|(g_b1&0x3F)) : WF3 ? (((g_b0&0x0F)<<12)|((g_b1&0x3F)<<6)|(g_b2&0x3F)) : (((g_b0&0x07)<<18)|((g_b1&0x3F)<<12)|((g_b2&0x3F)<<6)|(g_b3&0x3F)))
#define BYTE_AT(u,k) (((u)->the_index + (k) < (u)->the_length) ? (int)(unsigned char)(u)->the_input[(u)->the_index + (k)] : -1)
extern size_t g_buflen; extern int g_b0,g_b1,g_b2,g_b3, g_oi, g_ol, g_ob, g_oc;
int utf8_decode_next(utf8_decode_t *u)
__CPROVER_requires(__CPROVER_is_fresh(u, sizeof(*u)))
__CPROVER_requires(u->the_length >= 0 && (size_t)u->the_length <= g_buflen && g_buflen <= 0x7ffffff0 && __CPROVER_is_fresh(u->the_input, g_buflen + 1))
__CPROVER_requires(u->the_index >= 0 && u->the_index <= u->the_length && u->the_char >= 0 && u->the_char <= u->the_index)
__CPROVER_requires(g_oi == u->the_index && g_ol == u->the_length && g_ob == u->the_byte && g_oc == u->the_char)
__CPROVER_requires(g_b0 == BYTE_AT(u,0) && g_b1 == BYTE_AT(u,1) && g_b2 == BYTE_AT(u,2) && g_b3 == BYTE_AT(u,3))
__CPROVER_assigns(u->the_index, u->the_byte, u->the_char)
__CPROVER_ensures(g_oi == g_ol ==> (__CPROVER_return_value == UTF8_END && u->the_index == g_oi && u->the_byte == g_ob && u->the_char == g_oc))
__CPROVER_ensures(g_oi < g_ol ==> (u->the_byte == g_oi && u->the_char == g_oc + 1))
__CPROVER_ensures(WFLEN >= 1 ==> (u->the_index == g_oi + WFLEN && __CPROVER_return_value == CPV))
__CPROVER_ensures((g_oi < g_ol && WFLEN == 0) ==> (__CPROVER_return_value == UTF8_ERROR && u->the_index > g_oi && u->the_index <= g_ol))
__CPROVER_ensures(__CPROVER_return_value >= 0 ==> (WFLEN >= 1 && __CPROVER_return_value <= 0x10FFFF && !IN(__CPROVER_return_value, 0xD800, 0xDFFF) && ((__CPROVER_return_value <= 0x7F) == (WFLEN == 1))))
;
