#include "utf8_contract.h"
size_t g_buflen; int g_b0,g_b1,g_b2,g_b3, g_oi, g_ol, g_ob, g_oc;
void harness(void){ utf8_decode_t *u; utf8_decode_next(u); }
