int f(int x) __CPROVER_requires(x < 1000 && x > -1000) __CPROVER_assigns() __CPROVER_ensures(__CPROVER_return_value == x + 1);
void harness(void){ int x; f(x); }
