static int cache_valid; static int cache_val;
int f(int x)
{
  static char scratch[8];
  if (cache_valid && x == 0) return cache_val;
  scratch[0] = (char)x;
  cache_val = x + 1; cache_valid = 1;
  return x + 1;
}
