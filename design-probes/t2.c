#include <stdio.h>
#include <string.h>
#include <eav.h>
static void L(const char*s){ size_t n=strlen(s); printf("local [%s] 5321=%d 6531=%d\n", s, is_5321_local(s,s+n), is_6531_local(s,s+n)); }
int main(void){ L("\"\\\xc3\xa9\"\""); L("\"\\\xc3\xa9\""); L("\"\\a\""); L("\xc3\xa9.\"a\""); L("\xc3\xa9."); L(".\xc3\xa9"); L("\xc3\xa9..a"); L("a.\xc3\xa9"); L("\"a\"\xc3\xa9"); return 0; }
