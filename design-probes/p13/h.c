#include <stddef.h>
#include <stdbool.h>
#include <eav.h>
int g_live; /* idnkit resolver contexts alive */
idn_result_t idn_resconf_initialize(void){ idn_result_t r; return r; }
idn_result_t idn_resconf_create(idn_resconf_t *ctxp){ idn_result_t r; if (r == idn_success) { __CPROVER_assert(g_live == 0, "no context leaked by re-creation"); g_live = 1; } return r; }
void idn_resconf_destroy(idn_resconf_t ctx){ __CPROVER_assert(g_live == 1, "destroy of a live context only (no double destroy)"); g_live = 0; }
const char *g_msg; const char *idn_result_tostring(idn_result_t r){ return g_msg; }
int eav_setup(eav_t *eav)
__CPROVER_requires(__CPROVER_is_fresh(eav, sizeof(*eav)) && (eav->initialized == (g_live == 1)) && (g_live == 0 || g_live == 1))
__CPROVER_assigns(eav->ascii_cb, eav->utf8_cb, eav->utf8, eav->initialized, eav->idn, eav->idnmsg, g_live)
__CPROVER_ensures(eav->initialized == (g_live == 1))
__CPROVER_ensures((eav->rfc == EAV_RFC_822 || eav->rfc == EAV_RFC_5321 || eav->rfc == EAV_RFC_5322) ==> (__CPROVER_return_value == 0 && !eav->utf8 && g_live == 0 && eav->ascii_cb == (eav->rfc == EAV_RFC_822 ? is_822_email : eav->rfc == EAV_RFC_5321 ? is_5321_email : is_5322_email)))
;
void harness(void){ eav_t *e; eav_setup(e); }
