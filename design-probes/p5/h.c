#include "tab.h"
size_t g_hit;
int cmp(const char*a,const char*b,size_t n){ if (g_hit<3 && a==tab[g_hit].d) return 0; return 1; }
int look(const char *s)
__CPROVER_requires(g_hit<=3 && __CPROVER_is_fresh(s,8))
__CPROVER_assigns()
__CPROVER_ensures(g_hit<3 ? __CPROVER_return_value==tab[g_hit].type : __CPROVER_return_value==-1);
void harness(void){ const char*s; look(s);}
