#include "tab.c"
#include "f.c"
