#include "tab.h"
extern size_t g_hit;
int cmp(const char*a,const char*b,size_t n);
int look(const char *s)
{
    for (const t_t *t = tab; t->d != NULL; t++)
    __CPROVER_assigns(t)
    __CPROVER_loop_invariant(__CPROVER_same_object(t, tab))
    __CPROVER_loop_invariant(__CPROVER_POINTER_OFFSET(t) % sizeof(t_t) == 0 && __CPROVER_POINTER_OFFSET(t) / sizeof(t_t) <= g_hit)
    {
        if (cmp(t->d, s, t->len) == 0) return t->type;
    }
    return -1;
}
