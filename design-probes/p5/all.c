#include "tab.c"
#include "h.c"
#include "f.c"
