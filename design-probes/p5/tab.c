#include "tab.h"
const t_t tab[] = { {"aa",3,1},{"bb",3,2},{"cc",3,3},{NULL,0,0} };
