#include <stddef.h>
typedef struct { const char *d; size_t len; int type; } t_t;
extern const t_t tab[];
