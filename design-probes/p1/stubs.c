int isascii(int c){ return (c & ~0x7f) == 0; }
