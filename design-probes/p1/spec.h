#include <stddef.h>
/* spec DFA for RFC5321 local part */
enum { S_START, S_ATOM, S_QTEXT, S_QPAIR, S_QEND, S_DEAD };
#define IS_SPECIAL(c) ((c)=='('||(c)==')'||(c)=='<'||(c)=='>'||(c)=='@'||(c)==','||(c)==';'||(c)==':'||(c)=='\\'||(c)=='"'||(c)=='.'||(c)=='['||(c)==']')
#define IS_ATEXT(c) ((c)>32 && (c)<127 && !IS_SPECIAL(c))
#define IS_QTEXT(c) ((c)>=32 && (c)<127 && (c)!='"' && (c)!='\\')
#define STEP(g,c) ( \
  (g)==S_START ? (IS_ATEXT(c)?S_ATOM : (c)=='"'?S_QTEXT : S_DEAD) : \
  (g)==S_ATOM  ? (IS_ATEXT(c)?S_ATOM : (c)=='.'?S_START : S_DEAD) : \
  (g)==S_QTEXT ? ((c)=='"'?S_QEND : (c)=='\\'?S_QPAIR : IS_QTEXT(c)?S_QTEXT : S_DEAD) : \
  (g)==S_QPAIR ? (((c)>=32&&(c)<127)?S_QTEXT:S_DEAD) : \
  (g)==S_QEND  ? ((c)=='.'?S_START:S_DEAD) : S_DEAD )
#define ACC(g) ((g)==S_ATOM||(g)==S_QEND)
extern int g_state; extern size_t g_pos;
