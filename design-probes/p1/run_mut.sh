set -e
goto-cc -D__NO_CTYPE --function harness f_mut.c stubs.c -o a.gb
goto-instrument --dfcc harness --enforce-contract is_5321_local --apply-loop-contracts a.gb b.gb >/dev/null 2>&1
timeout 600 cbmc b.gb --bounds-check --pointer-check --signed-overflow-check --pointer-overflow-check --conversion-check "$@" 
