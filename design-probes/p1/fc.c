#include <ctype.h>
#include "spec.h"
#define ISASCII(c) isascii(_UCHAR_(c))
#define _UCHAR_(c) ((unsigned char)(c))
#define ISCNTRL(c) (ISASCII(c) && iscntrl(_UCHAR_(c)))
#define inverse(x) (-1 * (x))
enum { EEAV_NO_ERROR, EEAV_LPART_EMPTY=4, EEAV_LPART_NOT_ASCII=6, EEAV_LPART_SPECIAL, EEAV_LPART_CTRL_CHAR, EEAV_LPART_MISPLACED_QUOTE, EEAV_LPART_UNQUOTED, EEAV_LPART_TOO_MANY_DOTS, EEAV_LPART_MISPLACED_DOT};
int g_state; size_t g_pos; size_t g_len; int g_la;

extern int
is_5321_local (const char *start, const char *end)
__CPROVER_requires(g_len <= (size_t)1<<40 && __CPROVER_is_fresh(start, g_len + 1) && end == start + g_len)
__CPROVER_requires(g_state == S_START && g_pos == 0)
__CPROVER_assigns(g_state, g_pos, g_la)
__CPROVER_ensures((__CPROVER_return_value != 0) ==> (g_state==S_DEAD || (g_pos==g_len && !ACC(g_state)) || (g_pos<g_len && (g_la==0 || STEP(g_state,g_la)==S_DEAD))))
__CPROVER_ensures((__CPROVER_return_value == 0) ==> (g_pos == g_len ? ACC(g_state) : (g_pos < g_len && start[g_pos]==0)))
{
    const char *cp;
    int ch;
    int qpair = 0;
    int quote = 0;

    if (start == end)
        return inverse(EEAV_LPART_EMPTY);

    for (cp = start; cp < end && (ch = *(unsigned char *) cp) != 0; cp++)
    __CPROVER_assigns(cp, ch, qpair, quote, g_state, g_pos, g_la)
    __CPROVER_loop_invariant(__CPROVER_same_object(cp,start) && __CPROVER_POINTER_OFFSET(cp) >= __CPROVER_POINTER_OFFSET(start) && __CPROVER_POINTER_OFFSET(cp) <= __CPROVER_POINTER_OFFSET(end))
    __CPROVER_loop_invariant(g_pos == (size_t)(cp - start))
    __CPROVER_loop_invariant((quote==0||quote==1) && (qpair==0||qpair==1))
    __CPROVER_loop_invariant(g_state == (quote ? (qpair ? S_QPAIR : S_QTEXT) : (cp==start || cp[-1]=='.') ? S_START : (cp[-1]=='"') ? S_QEND : S_ATOM))
    __CPROVER_loop_invariant(!quote ==> !qpair)
    __CPROVER_loop_invariant((cp > start) ==> (g_la == ((cp < end) ? (int)*(unsigned char *)cp : -1)))
    __CPROVER_loop_invariant((!quote && cp > start && cp[-1]=='.') ==> (cp < end && cp[0] != '.'))
    __CPROVER_decreases(end - cp)
    {
        g_state = STEP(g_state, ch); g_pos++; g_la = (cp + 1 < end) ? (int)*(unsigned char *)(cp + 1) : -1;
        if (ch > 127)
            return inverse(EEAV_LPART_NOT_ASCII);
        if (ISCNTRL(ch))
            return inverse(EEAV_LPART_CTRL_CHAR);
        if (!quote) {
            if (cp > start && cp[-1]=='"' && ch != '.') return inverse(EEAV_LPART_MISPLACED_QUOTE); /* FIX */
            switch (ch) {
            case '"': {
                if (cp == start || cp[-1] == '.')
                    quote = 1;
                else
                    return inverse(EEAV_LPART_MISPLACED_QUOTE);
            } break;
            case '.': {
                if (cp == start || (cp + 1) == end)
                    return inverse(EEAV_LPART_MISPLACED_DOT);
                if ((cp + 1) < end && (cp[1] == '.'))
                    return inverse(EEAV_LPART_TOO_MANY_DOTS);
            } break;
            case '(': case ')': case '<': case '>': case '@':
            case ',': case ';': case ':': case '\\':
            case '[': case ']': case ' ':
                return inverse(EEAV_LPART_SPECIAL);
            }
        }
        else if (qpair)
            qpair = 0;
        else {
            switch (ch) {
            case '"':   quote = 0; break;
            case '\\':  qpair = 1; break;
            }
        }
    }

    if (quote)
        return inverse(EEAV_LPART_UNQUOTED);

    return EEAV_NO_ERROR;
}
void harness(void){ const char *s, *e; int r = is_5321_local(s,e); __CPROVER_assert(!(r == 0 && g_pos == g_len && g_len >= 3), "REACH"); __CPROVER_assert(!(r != 0 && g_pos < g_len), "REACH"); __CPROVER_assert(!(r != 0 && g_pos == g_len), "REACH"); }
