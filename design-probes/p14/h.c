#include <stddef.h>
#include <stdbool.h>
#include <stdlib.h>
#include <idn2.h>
#include <eav.h>
#include <eav/auto_tld.h>
_Bool nondet_bool(void); int nondet_int(void); size_t nondet_size(void);
/* A7: assumed contract of the IDN library */
char *g_out; size_t g_outlen; int g_idn_rc; int g_idn_calls;
int idn2_to_ascii_8z(const char *input, char **output, int flags)
{
  g_idn_calls++;
  g_idn_rc = nondet_int();
  if (g_idn_rc == IDN2_OK || nondet_bool()) {            /* a buffer is produced on success, maybe on failure too */
    size_t n = nondet_size(); __CPROVER_assume(n <= 300);
    char *b = malloc(n + 1); __CPROVER_assume(b != NULL); b[n] = 0;
    g_out = b; g_outlen = n; *output = b;
  }
  return g_idn_rc;
}
size_t strlen(const char *s){ __CPROVER_assert(s == g_out, "strlen of the converted string"); return g_outlen; }
int rec_dom_calls; const char *rec_dom_start, *rec_dom_end; int rec_dom_rc;
int is_ascii_domain(const char *start, const char *end)
__CPROVER_assigns(rec_dom_calls, rec_dom_start, rec_dom_end, rec_dom_rc)
__CPROVER_ensures(rec_dom_calls == __CPROVER_old(rec_dom_calls) + 1 && rec_dom_start == start && rec_dom_end == end && rec_dom_rc == __CPROVER_return_value && __CPROVER_return_value <= 0 && __CPROVER_return_value > -EEAV_MAX);
int is_utf8_domain(int *r, const char *start, const char *end, bool tld_check)
__CPROVER_requires(__CPROVER_is_fresh(r, sizeof(int)) && __CPROVER_is_fresh(start, 8) && __CPROVER_pointer_in_range_dfcc(start, end, start + 7) && end > start)
__CPROVER_requires(rec_dom_calls == 0 && g_idn_calls == 0 && tld_check == false)
__CPROVER_assigns(*r, rec_dom_calls, rec_dom_start, rec_dom_end, rec_dom_rc, g_out, g_outlen, g_idn_rc, g_idn_calls)
__CPROVER_ensures(g_idn_calls == 1 && *r == g_idn_rc)
__CPROVER_ensures(g_idn_rc != IDN2_OK ==> (__CPROVER_return_value == -EEAV_IDN_ERROR && rec_dom_calls == 0))
__CPROVER_ensures(g_idn_rc == IDN2_OK ==> (rec_dom_calls == 1 && rec_dom_start == g_out && rec_dom_end == g_out + g_outlen && __CPROVER_return_value == rec_dom_rc))
;
void harness(void){ int *r; const char *s,*e; bool t; is_utf8_domain(r,s,e,t); }
