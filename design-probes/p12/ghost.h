#include <stddef.h>
enum { H_START, H_ALNUM, H_HYPHEN, H_DEAD };
extern int g_ph, g_ll, g_nn; extern size_t g_pos, g_len, g_eff;
#define G_ALNUM(c) (((c)>='0'&&(c)<='9')||((c)>='A'&&(c)<='Z')||((c)>='a'&&(c)<='z'))
#define G_DIGIT(c) ((c)>='0'&&(c)<='9')
/* one step of the host-name specification automaton (labels of letters/digits/interior hyphens, 1..63) */
#define GHOST_STEP(c) { \
   if (G_ALNUM(c)) { if (g_ph != H_DEAD && g_ll < 63) { g_ph = H_ALNUM; g_ll++; if (!G_DIGIT(c)) g_nn = 1; } else g_ph = H_DEAD; } \
   else if ((c) == '.') { if (g_ph == H_ALNUM) { g_ph = H_START; g_ll = 0; } else g_ph = H_DEAD; } \
   else if ((c) == '-') { if ((g_ph == H_ALNUM || g_ph == H_HYPHEN) && g_ll < 63) { g_ph = H_HYPHEN; g_ll++; g_nn = 1; } else g_ph = H_DEAD; } \
   else g_ph = H_DEAD; \
   g_pos++; }
#define GHOST_AFTER_STRIP g_eff = (size_t)(end - start);
