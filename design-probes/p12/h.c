#include "ghost.h"
int g_ph, g_ll, g_nn; size_t g_pos, g_len, g_eff;
int isascii(int c){ return (c & ~0x7f) == 0; }
int is_ascii_domain(const char *start, const char *end)
__CPROVER_requires(g_len <= 0x7ffffff0 && __CPROVER_is_fresh(start, g_len + 1) && end == start + g_len && start[g_len] == 0)
__CPROVER_requires(g_ph == H_START && g_ll == 0 && g_nn == 0 && g_pos == 0)
__CPROVER_assigns(g_ph, g_ll, g_nn, g_pos, g_eff)
/* accepted => non-empty, <= 253 chars without the root dot, automaton over the stripped string accepts, not all-numeric */
__CPROVER_ensures(__CPROVER_return_value == 0 ==> (g_len >= 1 && g_eff == ((g_len >= 2 && start[g_len-1] == '.') ? g_len - 1 : g_len) && g_eff <= 253 && g_pos <= g_eff))
__CPROVER_ensures((__CPROVER_return_value == 0 && g_pos < g_eff) ==> start[g_pos] == 0)
__CPROVER_ensures((__CPROVER_return_value == 0 && g_pos == g_eff) ==> (g_ph == H_ALNUM && g_nn == 1))
;
void harness(void){ const char *s,*e; is_ascii_domain(s,e); }
