#include "ghost.h"
int v_ph, v_groups, v_hex, v_dc, v_swh, v_sawdot; size_t g_pos, g_len;
int isascii(int c){ return (c & ~0x7f) == 0; }
_Bool nondet_bool(void); size_t nondet_size(void);
/* A5: strspn(p, hexdigits): pointwise facts for the first five positions */
size_t strspn(const char *p, const char *set)
{
  size_t k = nondet_size();
  __CPROVER_assume(k <= 0x7fffffff);
  if (k > 0) __CPROVER_assume(G_HEX((unsigned char)p[0])); if (k > 1) __CPROVER_assume(G_HEX((unsigned char)p[1]));
  if (k > 2) __CPROVER_assume(G_HEX((unsigned char)p[2])); if (k > 3) __CPROVER_assume(G_HEX((unsigned char)p[3]));
  if (k > 4) __CPROVER_assume(G_HEX((unsigned char)p[4]));
  if (k <= 4) __CPROVER_assume(!G_HEX((unsigned char)p[k]));
  return k;
}
int is_ipv4(const char *start, const char *end) { v_sawdot = 1; return nondet_bool(); }
int is_ipv6(const char *start, const char *end)
__CPROVER_requires(g_len >= 1 && g_len <= 45 && __CPROVER_is_fresh(start, 46) && __CPROVER_pointer_in_range_dfcc(start, end, start + g_len) && end == start + g_len && start[g_len] == ']')
__CPROVER_requires(v_ph == V_START && v_groups == 0 && v_hex == 0 && v_dc == 0 && v_swh == 0 && v_sawdot == 0 && g_pos == 0)
__CPROVER_assigns(v_ph, v_groups, v_hex, v_dc, v_swh, v_sawdot, g_pos)
__CPROVER_ensures((__CPROVER_return_value != 0 && !v_sawdot) ==> (g_pos == g_len ? V_ACC : start[g_pos] == 0))
;
void harness(void){ const char *s,*e; int r = is_ipv6(s,e); __CPROVER_assert(!(r != 0 && !v_sawdot && g_pos == g_len && v_dc && v_groups == 3), "REACH accept with dc"); __CPROVER_assert(!(r != 0 && !v_sawdot && g_pos == g_len && !v_dc), "REACH accept 8 groups"); __CPROVER_assert(!(r == 0 && g_pos == g_len), "REACH reject at end"); }
