set -e
goto-cc -D__NO_CTYPE -I/repo/include -I. -D_DEFAULT_SOURCE --function harness h.c ${SRC:-f.c} -o a.gb
goto-instrument --dfcc harness --enforce-contract is_ipv6 --apply-loop-contracts a.gb b.gb 2>&1 | grep -iE "error|warn" || true
timeout 600 cbmc b.gb --bounds-check --pointer-check --signed-overflow-check --pointer-overflow-check "$@"
