#include <stddef.h>
#include <stdbool.h>
#include <stdlib.h>
#include <eav.h>
#include <eav/auto_tld.h>
/* ghost facts about the input string */
size_t g_len;          /* strlen(email) */
long   g_last_at;      /* index of last '@' or -1 */
const char *g_email;
/* ghost call records */
int rec_local_calls; const char *rec_local_start, *rec_local_end; int rec_local_rc;
int rec_dom_calls;   const char *rec_dom_start, *rec_dom_end; int rec_dom_rc;
int rec_other_calls;

int is_822_local(const char *start, const char *end)
__CPROVER_requires(rec_local_calls == 0)
__CPROVER_assigns(rec_local_calls, rec_local_start, rec_local_end, rec_local_rc)
__CPROVER_ensures(rec_local_calls == 1 && rec_local_start == start && rec_local_end == end && rec_local_rc == __CPROVER_return_value)
__CPROVER_ensures(__CPROVER_return_value <= 0)
;
int is_ascii_domain(const char *start, const char *end)
__CPROVER_requires(rec_dom_calls == 0)
__CPROVER_assigns(rec_dom_calls, rec_dom_start, rec_dom_end, rec_dom_rc)
__CPROVER_ensures(rec_dom_calls == 1 && rec_dom_start == start && rec_dom_end == end && rec_dom_rc == __CPROVER_return_value)
__CPROVER_ensures(__CPROVER_return_value <= 0)
;
/* trusted libc model: strrchr on the ghost-described string */
char *strrchr(const char *s, int c)
{
  __CPROVER_assert(s == g_email && c == '@', "strrchr only modelled for (email,'@') here");
  return g_last_at < 0 ? (char*)0 : (char *)s + g_last_at;
}

eav_result_t *is_822_email(const char *email, size_t length, bool tld_check)
__CPROVER_requires(length == g_len && g_len <= ((size_t)1<<40) && __CPROVER_is_fresh(email, g_len + 1) && email[g_len] == 0)
__CPROVER_requires(g_email == email && g_last_at >= -1 && g_last_at < (long)g_len && (g_last_at >= 0 ==> email[g_last_at] == '@'))
__CPROVER_requires(rec_local_calls == 0 && rec_dom_calls == 0 && tld_check == false)
__CPROVER_requires(g_last_at < 0 || g_last_at + 1 >= (long)g_len || email[g_last_at+1] != '[')
__CPROVER_assigns(rec_local_calls, rec_local_start, rec_local_end, rec_local_rc, rec_dom_calls, rec_dom_start, rec_dom_end, rec_dom_rc)
__CPROVER_ensures(__CPROVER_is_fresh(__CPROVER_return_value, sizeof(eav_result_t)))
__CPROVER_ensures(g_len == 0 ==> __CPROVER_return_value->rc == -EEAV_EMAIL_EMPTY)
__CPROVER_ensures((g_len > 0 && (g_last_at < 0 || g_last_at == (long)g_len - 1)) ==> __CPROVER_return_value->rc == -EEAV_DOMAIN_EMPTY)
__CPROVER_ensures((g_len > 0 && g_last_at >= 0 && g_last_at < (long)g_len - 1 && g_last_at > 64) ==> (__CPROVER_return_value->rc == -EEAV_LPART_TOO_LONG && rec_local_calls == 0))
__CPROVER_ensures((g_len > 0 && g_last_at >= 0 && g_last_at < (long)g_len - 1 && g_last_at <= 64) ==> (
     rec_local_calls == 1 && rec_local_start == email && rec_local_end == email + g_last_at &&
     (rec_local_rc != 0 ? (__CPROVER_return_value->rc == rec_local_rc && rec_dom_calls == 0)
                        : (rec_dom_calls == 1 && rec_dom_start == email + g_last_at + 1 && rec_dom_end == email + g_len && __CPROVER_return_value->rc == rec_dom_rc && __CPROVER_return_value->is_domain == (rec_dom_rc == 0)))))
;
void harness(void){ const char *e; size_t n; bool t; is_822_email(e,n,t); }
