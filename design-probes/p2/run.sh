set -e
goto-cc -D__NO_CTYPE -I/repo/include -D_DEFAULT_SOURCE -DHAVE_LIBIDN2 --function harness h.c ${SRC:-/repo/src/is_822_email.c} -o a.gb
goto-instrument --no-malloc-may-fail --dfcc harness --enforce-contract is_822_email --replace-call-with-contract is_822_local --replace-call-with-contract is_ascii_domain a.gb b.gb 2>&1 | grep -iE "error|warn" || true
timeout 300 cbmc b.gb --bounds-check --pointer-check --signed-overflow-check --pointer-overflow-check "$@"
