#include <stddef.h>
#include <eav.h>
#include <eav/auto_tld.h>
void harness(void){ size_t i; __CPROVER_assume(i<=1591); const tld_t *t = tld_list + i; __CPROVER_assert(__CPROVER_POINTER_OFFSET(t)/sizeof(tld_t) == i, "off"); __CPROVER_assert(t->type >= 0 && t->type <= 9, "type range"); __CPROVER_assert((i==1591) == (t->domain == NULL), "sentinel");}
