#include <stddef.h>
#include <eav.h>
#include <eav/auto_tld.h>
extern const tld_t tld_list[];
#define NTLD 1591
const size_t g_ntld = NTLD;
size_t g_hit; size_t g_n; const char *g_start;
/* oracle stub: entry g_hit is the first one equal to the label */
int strncasecmp(const char *a, const char *b, size_t n)
{
  __CPROVER_assert(b == g_start, "second argument is the candidate label");
  if (g_hit < NTLD && a == tld_list[g_hit].domain) { __CPROVER_assert(n == tld_list[g_hit].length, "compared with entry's own length"); return 0; }
  return 1;
}
int is_tld(const char *start, const char *end)
__CPROVER_requires(g_hit <= NTLD && g_n >= 1 && g_n <= 63 && __CPROVER_is_fresh(start, 64) && end == start + g_n && g_start == start)
__CPROVER_assigns()
__CPROVER_ensures(g_hit < NTLD ? __CPROVER_return_value == tld_list[g_hit].type : __CPROVER_return_value == -EEAV_TLD_INVALID)
;
void harness(void){ const char*s,*e; is_tld(s,e); __CPROVER_assert(tld_list[NTLD].domain == NULL && tld_list[NTLD-1].domain != NULL, "NTLD is table size"); }
