#include <string.h>
#include <strings.h>
#include <eav.h>
#include <eav/auto_tld.h>
#include <eav/private.h>
extern size_t g_hit; extern const size_t g_ntld;
extern int
is_tld (const char *start, const char *end)
{
    if (start == end)
        return inverse(EEAV_TLD_INVALID);

    for (const tld_t *tld = tld_list; tld->domain != NULL ; tld++)
    __CPROVER_assigns(tld)
    __CPROVER_loop_invariant(__CPROVER_same_object(tld, tld_list) && __CPROVER_POINTER_OFFSET(tld) % sizeof(tld_t) == 0 && __CPROVER_POINTER_OFFSET(tld) / sizeof(tld_t) <= g_hit)
    __CPROVER_decreases(g_ntld - __CPROVER_POINTER_OFFSET(tld) / sizeof(tld_t))
    {
        if (strncasecmp (tld->domain, start, tld->length) == 0)
            return tld->type;
    }

    return inverse(EEAV_TLD_INVALID);
}
