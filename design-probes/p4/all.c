#include "/repo/src/auto_tld.c"
#include "h2.c"
#include "is_tld_annot.c"
