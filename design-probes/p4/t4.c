#include <stddef.h>
#include <eav.h>
#include <eav/auto_tld.h>
size_t g_hit;
void harness(void){ const tld_t *tld = tld_list;
 __CPROVER_assert(__CPROVER_same_object(tld, tld_list), "same");
 __CPROVER_assert(__CPROVER_POINTER_OFFSET(tld) % sizeof(tld_t) == 0, "mod");
 __CPROVER_assert(__CPROVER_POINTER_OFFSET(tld) / sizeof(tld_t) <= g_hit, "le");
}
