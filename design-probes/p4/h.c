#include <stddef.h>
#include <string.h>
#include <eav.h>
#include <eav/auto_tld.h>
int is_tld(const char*, const char*);
void harness(void){
  char buf[32]; size_t n; __CPROVER_assume(n>=1 && n<=30); buf[n]=0;
  for (size_t i=0;i<30;i++) if (i<n) __CPROVER_assume(buf[i]!=0);
  int r = is_tld(buf, buf+n);
  /* sample facts */
  if (n==3 && (buf[0]|32)=='c' && (buf[1]|32)=='o' && (buf[2]|32)=='m') __CPROVER_assert(r==TLD_TYPE_GENERIC, "com generic");
  if (n==2 && buf[0]=='z' && buf[1]=='z') __CPROVER_assert(r==-EEAV_TLD_INVALID, "zz invalid");
  __CPROVER_assert(r==-EEAV_TLD_INVALID || (r>=1 && r<=9), "range");
  __CPROVER_assert(r!=TLD_TYPE_TEST, "no test entries (expected to hold if none in table)");
}
