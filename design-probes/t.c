#include <stdio.h>
#include <string.h>
#include <eav.h>
static void L(const char*s){ size_t n=strlen(s); printf("local %-14s 822=%d 5321=%d 5322=%d 6531=%d\n", s, is_822_local(s,s+n), is_5321_local(s,s+n), is_5322_local(s,s+n), is_6531_local(s,s+n)); }
static void D(const char*s){ size_t n=strlen(s); printf("domain %-14s ascii=%d special=%d\n", s, is_ascii_domain(s,s+n), is_special_domain(s,s+n)); }
static void E(const char*s,int tld){ eav_result_t*r=is_5321_email(s,strlen(s),tld); printf("5321email %-36s tld=%d rc=%d v4=%d v6=%d dom=%d\n",s,tld,r->rc,r->is_ipv4,r->is_ipv6,r->is_domain); eav_result_free(r);
 r=is_6531_email(s,strlen(s),tld); printf("6531email %-36s tld=%d rc=%d v4=%d v6=%d dom=%d idn=%d\n",s,tld,r->rc,r->is_ipv4,r->is_ipv6,r->is_domain,r->idn_rc); eav_result_free(r);}
int main(void){
 L("\"a\"b"); L("a\"b\""); L("a.\xc3\xa9.b"); L("\xc3\xa9\"b\""); L("a.\xc3\xa9\"b\""); L("\"a\".b"); L("\"a\"\"b\"");
 D("a.."); D("a."); D("abcdefg.test"); D("x.test"); D("example.test"); D("mailbox.example"); D("example.com"); D("xexample.com"); D("foo.example.org"); D("localhost"); D("example.onion");
 E("x@[1.2.3.4]junk",0); E("x@[1.2.3.4.]",0); E("x@[IPv6:1:2]",0); E("x@[IPv6:1:2:3]",0); E("x@[foo:1::2]",0); E("x@[2001:db8:1:1:1:1:1:1]",0); E("x@[IPv6:1:2:1.2.3.4]",0); E("x@[0.0.0.0]",0); E("x@[1.2.3.4]",0);
 E("x@abcdefg.test",1); E("x@a.test",1); E("x@a..",0); E("x@A.COM",1); E("x@a.com.",1);
 eav_t e; memset(&e,0x55,sizeof e); eav_init(&e); printf("idnmsg after init=%p\n",(void*)e.idnmsg);
 e.rfc=77; int rc=eav_setup(&e); printf("setup rc=%d errstr=%s\n",rc,eav_errstr(&e));
 return 0; }
