/* job: length lemma for is_ipv6 (src/is_ipv4_ipv6.c), every input length, by loop contract:
   the scan position never exceeds 5*field + len, hence an address accepted without a dotted quad has at most
   39 bytes, and a dotted quad is handed to is_ipv4 from a position <= 39.  Complements job is_ipv6 (g_len <= 45). */
#include <models_common.h>
#include <scan_common.h>
#include <spec_ip.h>

int rec_ip4_calls; size_t rec_ip4_off;
const char *g_start;

size_t strspn(const char *p, const char *set)
{
    size_t k = nondet_size();
    __CPROVER_assume(k <= 0x7fffffff);
    if (k > 0) { int b0 = BYTE_AT(p); __CPROVER_assume(V_IS_HEX(b0)); }
    if (k <= 4) { int bk = BYTE_AT(p + k); __CPROVER_assume(!V_IS_HEX(bk)); }
    return k;
}
int is_ipv4(const char *start, const char *end)
__CPROVER_assigns(rec_ip4_calls, rec_ip4_off)
__CPROVER_ensures(rec_ip4_calls == __CPROVER_old(rec_ip4_calls) + 1 && rec_ip4_off == (size_t)(start - g_start) && (__CPROVER_return_value == 0 || __CPROVER_return_value == 1))
;

int is_ipv6(const char *start, const char *end)
__CPROVER_requires(RANGE_REQ(start, end, (size_t)0x7ffffff0) && start[g_len] == ']' && g_start == start && rec_ip4_calls == 0)
__CPROVER_assigns(rec_ip4_calls, rec_ip4_off)
__CPROVER_ensures((__CPROVER_return_value != 0 && rec_ip4_calls == 0) ==> g_len <= 39)
__CPROVER_ensures(rec_ip4_calls != 0 ==> (rec_ip4_calls == 1 && rec_ip4_off <= 35))
;

#define EAV_VERIF_LOOP_is_ipv6 \
    __CPROVER_assigns(cp, len, field, null_field, rec_ip4_calls, rec_ip4_off) \
    __CPROVER_loop_invariant(IN_OBJ((const char *)cp, start, end) && field >= 0 && field <= 7 && len >= 0 && len <= 4 && null_field >= 0 && null_field <= 7 \
        && (size_t)((const char *)cp - start) <= (size_t)(5 * field + len) && (size_t)len <= (size_t)((const char *)cp - start) && rec_ip4_calls == 0 \
        && ((len > 0 && (const char *)cp < end) ==> !V_IS_HEX(BYTE_AT(cp)))) \
    __CPROVER_decreases(end - (const char *)cp)

#include <src/is_ipv4_ipv6.c>

void harness(void)
{
    const char *s, *e;
    int r = is_ipv6(s, e);
    __CPROVER_assert(!(r != 0 && rec_ip4_calls == 0 && g_len == 39), "REACH: accepted with the maximal length");
    __CPROVER_assert(!(rec_ip4_calls == 1), "REACH: dotted quad handed over");
}
