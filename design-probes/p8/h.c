#include "spec6531.h"
int g_state, g_b0,g_b1,g_b2,g_b3, g_bad; size_t g_pos, g_len;
int isascii(int c){ return (c & ~0x7f) == 0; }
int is_6531_local (const char *start, const char *end)
__CPROVER_requires(g_len <= 0x7ffffff0 && __CPROVER_is_fresh(start, g_len + 1) && end == start + g_len)
__CPROVER_requires(g_state == S_START && g_pos == 0)
__CPROVER_assigns(g_state, g_pos, g_b0, g_b1, g_b2, g_b3)
__CPROVER_ensures((__CPROVER_return_value == 0) ==> (g_pos == g_len && ACC(g_state)))
;
void harness(void){ const char *s,*e; is_6531_local(s,e); }
