#include <stddef.h>
enum { S_START, S_ATOM, S_QTEXT, S_QPAIR, S_QEND, S_DEAD };
#define IS_SPECIAL(c) ((c)=='('||(c)==')'||(c)=='<'||(c)=='>'||(c)=='@'||(c)==','||(c)==';'||(c)==':'||(c)=='\\'||(c)=='"'||(c)=='.'||(c)=='['||(c)==']')
#define IS_ATEXT(c) (((c)>32 && (c)<127 && !IS_SPECIAL(c)) || (c) > 127)
#define IS_QTEXT(c) (((c)>=32 && (c)<127 && (c)!='"' && (c)!='\\') || (c) > 127)
#define STEP(g,c) ( \
  (g)==S_START ? (IS_ATEXT(c)?S_ATOM : (c)=='"'?S_QTEXT : S_DEAD) : \
  (g)==S_ATOM  ? (IS_ATEXT(c)?S_ATOM : (c)=='.'?S_START : S_DEAD) : \
  (g)==S_QTEXT ? ((c)=='"'?S_QEND : (c)=='\\'?S_QPAIR : IS_QTEXT(c)?S_QTEXT : S_DEAD) : \
  (g)==S_QPAIR ? (((c)>=32&&(c)<127)?S_QTEXT:S_DEAD) : \
  (g)==S_QEND  ? ((c)=='.'?S_START:S_DEAD) : S_DEAD )
#define ACC(g) ((g)==S_ATOM||(g)==S_QEND)
#define IN(x,lo,hi) ((x) >= (lo) && (x) <= (hi))
#define WF1 (IN(g_b0,0x00,0x7F))
#define WF2 (IN(g_b0,0xC2,0xDF) && IN(g_b1,0x80,0xBF))
#define WF3 (( (g_b0==0xE0 && IN(g_b1,0xA0,0xBF)) || (IN(g_b0,0xE1,0xEC) && IN(g_b1,0x80,0xBF)) || \
               (g_b0==0xED && IN(g_b1,0x80,0x9F)) || (IN(g_b0,0xEE,0xEF) && IN(g_b1,0x80,0xBF)) ) && IN(g_b2,0x80,0xBF))
#define WF4 (( (g_b0==0xF0 && IN(g_b1,0x90,0xBF)) || (IN(g_b0,0xF1,0xF3) && IN(g_b1,0x80,0xBF)) || \
               (g_b0==0xF4 && IN(g_b1,0x80,0x8F)) ) && IN(g_b2,0x80,0xBF) && IN(g_b3,0x80,0xBF))
#define WFLEN (WF1?1:WF2?2:WF3?3:WF4?4:0)
extern int g_state, g_b0,g_b1,g_b2,g_b3, g_bad; extern size_t g_pos, g_len;
#define GB(k) ((u.the_byte + (k) < u.the_length) ? (int)*(unsigned char *)(start + u.the_byte + (k)) : -1)
