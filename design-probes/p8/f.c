#include <stdio.h>
#include <eav.h>
#include <eav/private.h>
#include "/repo/src/utf8_decode.h"
#include "spec6531.h"
extern int
is_6531_local (const char *start, const char *end)
{
    int qpair = 0;
    int quote = 0;
    int ch;
    int prev = -1; /* FIX */
    utf8_decode_t u;

    if (start == end)
        return inverse(EEAV_LPART_EMPTY);

    utf8_decode_init (start, end - start, &u);
    while ((ch = utf8_decode_next (&u)) >= 0)
    __CPROVER_assigns(ch, prev, quote, qpair, u.the_index, u.the_byte, u.the_char, g_state, g_pos, g_b0, g_b1, g_b2, g_b3)
    __CPROVER_loop_invariant(u.the_input == start && u.the_length == (int)g_len && u.the_index >= 0 && u.the_index <= u.the_length && u.the_char >= 0 && u.the_char <= u.the_index)
    __CPROVER_loop_invariant(g_pos == (size_t)u.the_index)
    __CPROVER_loop_invariant((quote==0||quote==1) && (qpair==0||qpair==1) && (!quote ==> !qpair))
    __CPROVER_loop_invariant((u.the_index == 0) == (prev == -1) && prev >= -1 && prev < u.the_index)
    __CPROVER_loop_invariant(g_state == (quote ? (qpair ? S_QPAIR : S_QTEXT) : (prev < 0 || start[prev]=='.') ? S_START : (start[prev]=='"') ? S_QEND : S_ATOM))
    __CPROVER_loop_invariant((!quote && prev >= 0 && start[prev]=='.') ==> (prev + 1 == u.the_index && u.the_index < u.the_length))
    __CPROVER_decreases(u.the_length - u.the_index)
    {
        /* ghost: the decoder consumed exactly one well-formed sequence */
        g_b0 = GB(0); g_b1 = GB(1); g_b2 = GB(2); g_b3 = GB(3);
        __CPROVER_assert((size_t)u.the_byte == g_pos && u.the_index - u.the_byte == WFLEN && WFLEN >= 1, "decoder consumed one well-formed UTF-8 sequence");
        __CPROVER_assert((ch <= 127) == (WFLEN == 1) && (ch > 127 || ch == g_b0), "ASCII iff one byte");
        g_state = STEP(g_state, ch); g_pos = u.the_index;

        /* skip non-ASCII characters */
        if (ch > 0x007f) {
            if (qpair) return inverse(EEAV_LPART_SPECIAL); /* FIX */
            if (!quote && prev >= 0 && start[prev] == '"') return inverse(EEAV_LPART_MISPLACED_QUOTE); /* FIX */
            prev = utf8_decode_at_byte (&u); /* FIX */
            continue;
        }

        if (ISCNTRL(ch))
            return inverse(EEAV_LPART_CTRL_CHAR);

        if (!quote) {
            if (prev >= 0 && start[prev] == '"' && ch != '.') return inverse(EEAV_LPART_MISPLACED_QUOTE); /* FIX */
            switch (ch) {
            case '"': {
                if (prev < 0 || start[prev] == '.')
                    quote = 1;
                else
                    return inverse(EEAV_LPART_MISPLACED_QUOTE);
            } break;
            case '.': {
                int pos = utf8_decode_at_byte(&u);
                if (pos >= 1 && start[prev] == '.')
                    return inverse(EEAV_LPART_TOO_MANY_DOTS);
                if (pos == 0 || (start + pos + 1) == end)
                    return inverse(EEAV_LPART_MISPLACED_DOT);
            } break;
            case '(': case ')': case '<': case '>': case '@':
            case ',': case ';': case ':': case '\\':
            case '[': case ']': case ' ':
                return inverse(EEAV_LPART_SPECIAL);
            }
        }
        else if (qpair)
            qpair = 0;
        else {
            switch (ch) {
            case '"':   quote = 0; break;
            case '\\':  qpair = 1; break;
            }
        }
        prev = utf8_decode_at_byte (&u);
    }

    if (ch != UTF8_END)
        return inverse(EEAV_LPART_INVALID_UTF8);

    if (quote)
        return inverse(EEAV_LPART_UNQUOTED);

    return EEAV_NO_ERROR;
}
