#include <stdio.h>
#include <eav.h>
#include <string.h>
#include <eav/private.h>
#include "ghost.h"
extern int
is_ipv6 (const char *start, const char *end)
{
    int     null_field = 0;
    int     field = 0;
    unsigned char *cp = (unsigned char *) start;
    int     len = 0;


    for ( ; cp < (unsigned char *) end; )
    __CPROVER_assigns(cp, field, null_field, len, v_ph, v_groups, v_hex, v_dc, v_swh, g_pos)
    __CPROVER_loop_invariant(__CPROVER_same_object(cp, start) && __CPROVER_POINTER_OFFSET(cp) >= __CPROVER_POINTER_OFFSET(start) && __CPROVER_POINTER_OFFSET(cp) <= __CPROVER_POINTER_OFFSET(end)
        && g_pos == (size_t)((char *)cp - start)
        && v_ph != V_DEAD && (v_dc == 0 || v_dc == 1) && (v_swh == 0 || v_swh == 1) && v_groups >= 0 && v_groups <= 8
        && field >= 0 && field <= 7 && field == v_groups - v_swh + v_dc + (V_PENDING ? 1 : 0)
        && len == (v_ph == V_HEX ? v_hex : 0) && (v_ph == V_HEX ==> (v_hex >= 1 && v_hex <= 4 && v_groups >= 1))
        && (v_ph == V_START) == ((char *)cp == start) && (v_ph == V_START ==> (v_groups == 0 && v_dc == 0 && v_swh == 0 && field == 0))
        && (v_ph == V_LEAD ==> (field == 1 && v_groups == 0 && cp[0] == ':'))
        && (v_ph == V_HEX ==> !G_HEX(cp[0]))
        && ((null_field > 0) == (v_dc == 1 || ((v_ph == V_C1 || v_ph == V_LEAD) && cp[0] == ':')))
        && (null_field >= 0 && null_field <= field)
        && (v_ph == V_DC ==> null_field == field - 1)
        && ((v_ph == V_C1 || v_ph == V_LEAD) && cp[0] == ':' ==> null_field == field)
        && (v_swh == 0 ==> v_dc + (V_PENDING ? 1 : 0) >= (v_groups > 0 ? 1 : 0)))
    __CPROVER_decreases((unsigned char *) end - cp)
    {
        switch (*cp) {
        case 0:
            /* Terminate the loop. */
            if (field < 2) {
                /* too few `:' in IPv6 address*/
                return (NO);
            }
            else if (len == 0 && null_field != field - 1) {
                /* bad null last field in IPv6 address */
                return (NO);
            }
            else
                return (YES);
        case '.':
            /* Terminate the loop. */
            if (field < 2 || field > 6) {
                /* malformed IPv4-in-IPv6 address */
                return (NO);
            }
            else
        		/* NOT: Avoid recursion. */
                return (is_ipv4 ((char *) cp - len, end));
        case ':': {
            /* Advance by exactly 1 character position or terminate. */
            if (field == 0 && len == 0 && ISALNUM(cp[1])) {
                /* bad null first field in IPv6 address */
                return (NO);
            }
            V_STEP(':')
            field++;
            if (field > 7) {
                /* too many `:' in IPv6 address */
                return (NO);
            }
            cp++;
            len = 0;
            if (*cp == ':') {
                if (null_field > 0) {
                    /* too many `::' in IPv6 address */
                    return (NO);
                }
                null_field = field;
            }
        } break;
        default: {
            /* Advance by at least 1 character position or terminate. */
            len = strspn ((char *) cp, "0123456789abcdefABCDEF");
            if (len /* - strspn((char *) cp, "0") */ > 4) {
                /* malformed IPv6 address */
                return (NO);
            }
            if (len <= 0) {
                /* invalid character in IPv6 address */
                return (NO);
            }
            if (0 < len) V_STEP(cp[0]) if (1 < len) V_STEP(cp[1]) if (2 < len) V_STEP(cp[2]) if (3 < len) V_STEP(cp[3])
            cp += len;
        } break;
        } /* switch */
    } /* for (;;) */

    if (field < 2) return (NO); /* FIX */
    if (len == 0 && null_field != field - 1) return (NO); /* FIX */
    if (null_field == 0 && field != 7) return (NO); /* FIX */
    return (YES);
}


