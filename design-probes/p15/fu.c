#include <stdio.h>
#include <eav.h>
#include <string.h>
#include <eav/private.h>
#include "ghost.h"
extern int
is_ipv6 (const char *start, const char *end)
{
    int     null_field = 0;
    int     field = 0;
    unsigned char *cp = (unsigned char *) start;
    int     len = 0;


    for ( ; cp < (unsigned char *) end; )
    {
        switch (*cp) {
        case 0:
            /* Terminate the loop. */
            if (field < 2) {
                /* too few `:' in IPv6 address*/
                return (NO);
            }
            else if (len == 0 && null_field != field - 1) {
                /* bad null last field in IPv6 address */
                return (NO);
            }
            else
                return (YES);
        case '.':
            /* Terminate the loop. */
            if (field < 2 || field > 6) {
                /* malformed IPv4-in-IPv6 address */
                return (NO);
            }
            else
        		/* NOT: Avoid recursion. */
                return (is_ipv4 ((char *) cp - len, end));
        case ':': {
            /* Advance by exactly 1 character position or terminate. */
            if (field == 0 && len == 0 && ISALNUM(cp[1])) {
                /* bad null first field in IPv6 address */
                return (NO);
            }
            V_STEP(':')
            field++;
            if (field > 7) {
                /* too many `:' in IPv6 address */
                return (NO);
            }
            cp++;
            len = 0;
            if (*cp == ':') {
                if (null_field > 0) {
                    /* too many `::' in IPv6 address */
                    return (NO);
                }
                null_field = field;
            }
        } break;
        default: {
            /* Advance by at least 1 character position or terminate. */
            len = strspn ((char *) cp, "0123456789abcdefABCDEF");
            if (len /* - strspn((char *) cp, "0") */ > 4) {
                /* malformed IPv6 address */
                return (NO);
            }
            if (len <= 0) {
                /* invalid character in IPv6 address */
                return (NO);
            }
            if (0 < len) V_STEP(cp[0]) if (1 < len) V_STEP(cp[1]) if (2 < len) V_STEP(cp[2]) if (3 < len) V_STEP(cp[3])
            cp += len;
        } break;
        } /* switch */
    } /* for (;;) */

    if (field < 2) return (NO); /* FIX */
    if (len == 0 && null_field != field - 1) return (NO); /* FIX */
    if (null_field == 0 && field != 7) return (NO); /* FIX */
    return (YES);
}


