#include <stddef.h>
enum { V_START, V_HEX, V_C1, V_LEAD, V_DC, V_DEAD };
extern int v_ph, v_groups, v_hex, v_dc, v_swh, v_sawdot; extern size_t g_pos, g_len;
#define G_HEX(c) (((c)>='0'&&(c)<='9')||((c)>='a'&&(c)<='f')||((c)>='A'&&(c)<='F'))
/* one step of the RFC 4291 text-form automaton (no dotted-quad tail in this probe) */
#define V_STEP(c) { int c_ = (c); \
  if (G_HEX(c_)) { \
     if (v_ph == V_START) { v_ph = V_HEX; v_groups = 1; v_hex = 1; v_swh = 1; } \
     else if (v_ph == V_C1 || v_ph == V_DC) { v_ph = (v_groups < 8) ? V_HEX : V_DEAD; v_groups++; v_hex = 1; } \
     else if (v_ph == V_HEX && v_hex < 4) { v_hex++; } \
     else v_ph = V_DEAD; } \
  else if (c_ == ':') { \
     if (v_ph == V_START) v_ph = V_LEAD; \
     else if (v_ph == V_HEX) { v_ph = V_C1; v_hex = 0; } \
     else if ((v_ph == V_C1 && !v_dc) || v_ph == V_LEAD) { v_ph = V_DC; v_dc = 1; } \
     else v_ph = V_DEAD; } \
  else v_ph = V_DEAD; \
  g_pos++; }
#define V_ACC ((v_ph == V_HEX || v_ph == V_DC) && (v_dc ? v_groups <= 7 : v_groups == 8))
#define V_PENDING (v_ph == V_C1 || v_ph == V_LEAD || v_ph == V_DC)
