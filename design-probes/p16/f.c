#include <eav.h>
#include <ctype.h>
#include <stdio.h>
#include <eav/private.h>
#include "spec.h"

/*
 * local-part = dot-atom / quoted-string / obs-local-part
 * dot-atom = [CFWS] dot-atom-text [CFWS]
 * dot-atom-text = 1*atext *("." 1*atext)
 * atext = ALPHA / DIGIT /  ; Printable US-ASCII
            "!" / "#" /     ; characters not including
            "$" / "%" /     ; specials. Used for atoms.
            "&" / "’" /
            "*" / "+" /
            "-" / "/" /
            "=" / "?" /
            "^" / "_" /
            "‘" / "{" /
            "|" / "}" /
            "~"
 * quoted-string = [CFWS] DQUOTE *([FWS] qcontent) [FWS] DQUOTE [CFWS]
 * FWS = ([*WSP CRLF] 1*WSP) / obs-FWS
 * obs-FWS = 1*WSP *(CRLF 1*WSP)
 * qcontent = qtext / quoted-pair
 * qtext = %d33 / %d35-91 / %d93-126 / obs-qtext
 * obs-qtext = obs-NO-WS-CTL
 * obs-NO-WS-CTL = %d1-8 / %d11 / %d12 / %d14-31 / %d127
 * quoted-pair = ("\" (VCHAR / WSP)) / obs-qp
 * WSP = SP / HTAB
 * VCHAR = %x21-7E
 * obs-qp = "\" (%d0 / obs-NO-WS-CTL / LF / CR)
 */
extern int
is_5322_local (const char *start, const char *end)
{
    const char *cp;
    int ch;
    int qpair = 0;
    int quote = 0;


    if (start == end)
        return inverse(EEAV_LPART_EMPTY);

    for (cp = start; cp < end && (ch = *(unsigned char *) cp) != 0; cp++)
    __CPROVER_assigns(cp, ch, qpair, quote, g_state, g_pos, g_la)
    __CPROVER_loop_invariant(__CPROVER_same_object(cp,start) && __CPROVER_POINTER_OFFSET(cp) >= __CPROVER_POINTER_OFFSET(start) && __CPROVER_POINTER_OFFSET(cp) <= __CPROVER_POINTER_OFFSET(end)
        && g_pos == (size_t)(cp - start) && (quote==0||quote==1) && (qpair==0||qpair==1) && (!quote ==> !qpair)
        && ((cp > start) ==> (g_la == ((cp < end) ? (int)*(unsigned char *)cp : -1)))
        && (!quote ==> g_state == ((cp==start || cp[-1]=='.') ? S_START : (cp[-1]=='"') ? S_QEND : S_ATOM))
        && ((quote && qpair) ==> g_state == S_QPAIR)
        && ((quote && !qpair) ==> (cp > start && (IS_DQWS(cp[-1]) ? (g_state == S_QDQWS || g_state == S_QPEND) : g_state == S_QOTHER)))
        && (g_state == S_QPEND ==> (cp == end || IS_DQWS(cp[0])))
        && ((!quote && cp > start && cp[-1]=='.') ==> (cp < end && cp[0] != '.')))
    __CPROVER_decreases(end - cp)
    {
        g_state = STEP(g_state, ch); g_pos++; g_la = (cp + 1 < end) ? (int)*(unsigned char *)(cp + 1) : -1;
        if (ch > 127)
            return inverse(EEAV_LPART_NOT_ASCII);
        if (!quote) {
            /* rfc5322 allows next CTRLs in qtext:
             *    %d1-8 / %d11 / %d12 / %d14-31 / %d127
             * in quoted-pairs:
             *    %d0 / %d1-8 / %d11 / %d12 / %d14-31 / %d127 / LF / CR
             */
            if (!qpair && ISCNTRL(ch))
                return inverse(EEAV_LPART_CTRL_CHAR);
            if (cp > start && cp[-1] == '"' && ch != '.') return inverse(EEAV_LPART_MISPLACED_QUOTE); /* FIX D1 */
            switch (ch) {
            case '"': {
                /* quote-strings are allowed at the start
                 * or with preciding '.' only
                 */
                if (cp == start || cp[-1] == '.')
                    quote = 1;
                else
                    return inverse(EEAV_LPART_MISPLACED_QUOTE);
            } break;
            case '.': {
                /* '.' is allowed after an atom and only once */
                if (cp == start || (cp + 1) == end)
                    return inverse(EEAV_LPART_MISPLACED_DOT);
                if ((cp + 1) < end && (cp[1] == '.'))
                    return inverse(EEAV_LPART_TOO_MANY_DOTS);
            } break;
            /* specials & SPACE are not allowed outside quote-string */
            case '(': case ')': case '<': case '>': case '@':
            case ',': case ';': case ':': case '\\':
            case '[': case ']': case ' ':
                return inverse(EEAV_LPART_SPECIAL);
            }
        }
        else if (qpair) /* everything, even control chars */
            qpair = 0;
        else {
            switch (ch) {
            case '"':   quote = 0; break;
            case '\\':  qpair = 1; break;
            /* the next chars are not allowed in qtext: */
            /* 1) they must be in quoted-pair(s). */
            /* 2) either they are permitted right after first DQUOTE
             *    or before the last DQUOTE only.
             */
            case '\n': case '\r':
            case '\t': case ' ':
                switch (cp[-1]) {
                    case '"':
                    case '\n': case '\r': case '\t': case ' ':
                        goto next;
                }

                if (cp >= end - 1)
                    break;

                switch (cp[1]) {
                    case '"':
                    case '\n': case '\r': case '\t': case ' ':
                        break;
                    default:
                        return inverse(EEAV_LPART_UNQUOTED_FWS);
                }
next:
            break;
            } /* switch (ch) */
        } /* else */
    } /* for (cp = start; ... */

    /* local-part with open quote is not allowed */
    if (quote)
        return inverse(EEAV_LPART_UNQUOTED);

    return EEAV_NO_ERROR;
}
