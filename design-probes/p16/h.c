#include "spec.h"
int g_state, g_la; size_t g_pos, g_len;
int isascii(int c){ return (c & ~0x7f) == 0; }
int is_5322_local(const char *start, const char *end)
__CPROVER_requires(g_len <= ((size_t)1<<40) && __CPROVER_is_fresh(start, g_len + 1) && __CPROVER_pointer_in_range_dfcc(start, end, start + g_len) && end == start + g_len)
__CPROVER_requires(g_state == S_START && g_pos == 0)
__CPROVER_assigns(g_state, g_pos, g_la)
__CPROVER_ensures((__CPROVER_return_value != 0) ==> (g_state==S_DEAD || (g_pos==g_len && !ACC(g_state)) || (g_pos<g_len && (g_la==0 || STEP(g_state,g_la)==S_DEAD))))
__CPROVER_ensures((__CPROVER_return_value == 0) ==> (g_pos == g_len ? ACC(g_state) : (g_pos < g_len && start[g_pos]==0)))
;
void harness(void){ const char *s,*e; int r = is_5322_local(s,e); __CPROVER_assert(!(r==0 && g_pos==g_len && g_len>=4), "REACH accept"); __CPROVER_assert(!(r!=0 && g_pos==g_len), "REACH reject"); }
