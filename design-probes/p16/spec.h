#include <stddef.h>
enum { S_START, S_ATOM, S_QEND, S_QDQWS, S_QOTHER, S_QPEND, S_QPAIR, S_DEAD };
#define IS_SPECIAL(c) ((c)=='('||(c)==')'||(c)=='<'||(c)=='>'||(c)=='@'||(c)==','||(c)==';'||(c)==':'||(c)=='\\'||(c)=='"'||(c)=='.'||(c)=='['||(c)==']')
#define IS_ATEXT(c) ((c)>32 && (c)<127 && !IS_SPECIAL(c))
#define IS_WS(c) ((c)==' '||(c)=='\t'||(c)=='\r'||(c)=='\n')
#define IS_DQWS(c) ((c)=='"'||IS_WS(c))
#define INQ(g) ((g)==S_QDQWS||(g)==S_QOTHER||(g)==S_QPEND)
/* RFC 5322 local part per property C02: controls other than whitespace are qtext; unescaped
   SP/HT/CR/LF only next to a DQUOTE or another whitespace; backslash escapes any ASCII */
#define STEP(g,c) ( (c) > 127 ? S_DEAD : \
  (g)==S_START ? (IS_ATEXT(c)?S_ATOM : (c)=='"'?S_QDQWS : S_DEAD) : \
  (g)==S_ATOM  ? (IS_ATEXT(c)?S_ATOM : (c)=='.'?S_START : S_DEAD) : \
  (g)==S_QEND  ? ((c)=='.'?S_START:S_DEAD) : \
  (g)==S_QPAIR ? (IS_DQWS(c)?S_QDQWS:S_QOTHER) : \
  INQ(g) ? ( ((g)==S_QPEND && !IS_DQWS(c)) ? S_DEAD : (c)=='"' ? S_QEND : (c)=='\\' ? S_QPAIR : \
             IS_WS(c) ? ((g)==S_QOTHER ? S_QPEND : S_QDQWS) : S_QOTHER ) : S_DEAD )
#define ACC(g) ((g)==S_ATOM||(g)==S_QEND)
extern int g_state, g_la; extern size_t g_pos, g_len;
