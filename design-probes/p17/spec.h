#include <stddef.h>
enum { S_START, S_ATOM, S_QEND, S_QTEXT, S_QPAIR, S_QCR, S_QCRLF, S_DEAD };
#define IS_SPECIAL(c) ((c)=='('||(c)==')'||(c)=='<'||(c)=='>'||(c)=='@'||(c)==','||(c)==';'||(c)==':'||(c)=='\\'||(c)=='"'||(c)=='.'||(c)=='['||(c)==']')
#define IS_ATEXT(c) ((c)>32 && (c)<127 && !IS_SPECIAL(c))
/* RFC 822 local part per property C02: qtext = any ASCII except unescaped DQUOTE / backslash and a CR
   that is not CR LF followed by SP/HT; backslash escapes any ASCII */
#define STEP(g,c) ( (c) > 127 ? S_DEAD : \
  (g)==S_START ? (IS_ATEXT(c)?S_ATOM : (c)=='"'?S_QTEXT : S_DEAD) : \
  (g)==S_ATOM  ? (IS_ATEXT(c)?S_ATOM : (c)=='.'?S_START : S_DEAD) : \
  (g)==S_QEND  ? ((c)=='.'?S_START:S_DEAD) : \
  (g)==S_QPAIR ? S_QTEXT : \
  (g)==S_QTEXT ? ((c)=='"' ? S_QEND : (c)=='\\' ? S_QPAIR : (c)=='\r' ? S_QCR : S_QTEXT) : \
  (g)==S_QCR   ? ((c)=='\n' ? S_QCRLF : S_DEAD) : \
  (g)==S_QCRLF ? (((c)==' '||(c)=='\t') ? S_QTEXT : S_DEAD) : S_DEAD )
#define ACC(g) ((g)==S_ATOM||(g)==S_QEND)
extern int g_state, g_la, g_la2; extern size_t g_pos, g_len;
