#include "spec.h"
int g_state, g_la, g_la2; size_t g_pos, g_len;
int isascii(int c){ return (c & ~0x7f) == 0; }
#define AFTER1 STEP(g_state, g_la)
int is_822_local(const char *start, const char *end)
__CPROVER_requires(g_len <= ((size_t)1<<40) && __CPROVER_is_fresh(start, g_len + 1) && __CPROVER_pointer_in_range_dfcc(start, end, start + g_len) && end == start + g_len && (start[g_len] == '@' || start[g_len] == 0))
__CPROVER_requires(g_state == S_START && g_pos == 0)
__CPROVER_assigns(g_state, g_pos, g_la, g_la2)
__CPROVER_ensures((__CPROVER_return_value != 0) ==> (g_state==S_DEAD || (g_pos==g_len && !ACC(g_state)) || (g_pos<g_len && (g_la==0 || AFTER1==S_DEAD || (g_pos+1==g_len && !ACC(AFTER1)) || (g_pos+1<g_len && (g_la2==0 || STEP(AFTER1,g_la2)==S_DEAD || (g_pos+2==g_len && !ACC(STEP(AFTER1,g_la2)))))))))
__CPROVER_ensures((__CPROVER_return_value == 0) ==> (g_pos == g_len ? ACC(g_state) : (g_pos < g_len && start[g_pos]==0)))
;
void harness(void){ const char *s,*e; int r = is_822_local(s,e); __CPROVER_assert(!(r==0 && g_pos==g_len && g_len>=4), "REACH accept"); __CPROVER_assert(!(r!=0 && g_pos==g_len), "REACH reject"); }
