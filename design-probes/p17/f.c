#include <eav.h>
#include <ctype.h>
#include <eav/private.h>
#include "spec.h"

/*
 * local-part = word *("." word)
 * word = atom / quoted-string
 * atom = 1*<any CHAR except specials, SPACE and CTLs>
 * quoted-string = <"> *(qtext/quoted-pair) <">
 * qtext       =  <any CHAR excepting <">,     ; => may be folded
 *                 "\" & CR, and including
 *                 linear-white-space>
 * quoted-pair = "\" CHAR
 * CHAR = <any ASCII character> ; ( 0-177, 0.-127.)
 * specials = "(" / ")" / "<" / ">" / "@"   ; Must be in quoted-
 *          / "," / ";" / ":" / "\" / <">   ; string, to use
 *          / "." / "[" / "]"               ; within a word.
 * CTL = <any ASCII control     ; ( 0- 37, 0.- 31.)
 *        character and DEL>    ; ( 177, 127.)
 *
 *
 * CR          =  <ASCII CR, carriage return>  ; (     15,      13.)
 * CRLF        =  CR LF
 * HTAB        =  <ASCII HT, horizontal-tab>   ; (     11,       9.)
 * LF          =  <ASCII LF, linefeed>         ; (     12,      10.)
 * LWSP-char   =  SPACE / HTAB                 ; semantics = SPACE
 * linear-white-space =  1*([CRLF] LWSP-char)  ; semantics = SPACE
 *                                             ; CRLF => folding
 */
extern int
is_822_local (const char *start, const char *end)
{
    const char *cp;
    int ch;
    int qpair = 0;
    int quote = 0;


    if (start == end)
        return inverse(EEAV_LPART_EMPTY);

    for (cp = start; cp < end && (ch = *(unsigned char *) cp) != 0; cp++)
    __CPROVER_assigns(cp, ch, qpair, quote, g_state, g_pos, g_la, g_la2)
    __CPROVER_loop_invariant(__CPROVER_same_object(cp,start) && __CPROVER_POINTER_OFFSET(cp) >= __CPROVER_POINTER_OFFSET(start) && __CPROVER_POINTER_OFFSET(cp) <= __CPROVER_POINTER_OFFSET(end)
        && g_pos == (size_t)(cp - start) && (quote==0||quote==1) && (qpair==0||qpair==1) && (!quote ==> !qpair)
        && ((cp > start) ==> (g_la == ((cp < end) ? (int)*(unsigned char *)cp : -1)))
        && g_state == (quote ? (qpair ? S_QPAIR : S_QTEXT) : ((cp==start || cp[-1]=='.') ? S_START : (cp[-1]=='"') ? S_QEND : S_ATOM))
        && ((!quote && cp > start && cp[-1]=='.') ==> (cp < end && cp[0] != '.')))
    __CPROVER_decreases(end - cp)
    {
        g_state = STEP(g_state, ch); g_pos++; g_la = (cp + 1 < end) ? (int)*(unsigned char *)(cp + 1) : -1; g_la2 = (cp + 2 < end) ? (int)*(unsigned char *)(cp + 2) : -1;
        if (ch > 127)
            return inverse(EEAV_LPART_NOT_ASCII);
        if (!quote) {
            /* SPACE and CTLs outside of quotes & quoted-pairs are forbidden.
             * See SPACE check below.
             */
            if (!qpair && ISCNTRL(ch))
                return inverse(EEAV_LPART_CTRL_CHAR);
            if (cp > start && cp[-1] == '"' && ch != '.') return inverse(EEAV_LPART_MISPLACED_QUOTE); /* FIX D1 */
            switch (ch) {
            case '"': {
                /* quote-strings are allowed at the start
                 * or with preciding '.' only
                 */
                if (cp == start || cp[-1] == '.')
                    quote = 1;
                else
                    return inverse(EEAV_LPART_MISPLACED_QUOTE);
            } break;
            case '.': {
                /* '.' is allowed after an atom and only once */
                if (cp == start || (cp + 1) == end)
                    return inverse(EEAV_LPART_MISPLACED_DOT);
                if ((cp + 1) < end && (cp[1] == '.'))
                    return inverse(EEAV_LPART_TOO_MANY_DOTS);
            } break;
            /* specials & SPACE are not allowed outside quote-string */
            case '(': case ')': case '<': case '>': case '@':
            case ',': case ';': case ':': case '\\':
            case '[': case ']': case ' ':
                return inverse(EEAV_LPART_SPECIAL);
            }
        }
        else if (qpair) {
            /* any CHAR is allowed in quote-pair */
            qpair = 0;
        }
        else {
            /* qtext = <any CHAR excepting <">, "\" & CR, and including linear-white-space> */
            switch (ch) {
            case '"':  { quote = 0; break; }
            case '\\': { qpair = 1; break; }
            /* excepting CR, and including linear-white-space> */
            case '\r': {
                /* allow folding, i.e. 1*([CRLF] LWSP-char) */
                if ((cp + 2) <= end && cp[1] == '\n' && (cp[2] == '\t' || cp[2] == ' '))
                    { cp += 2; g_state = STEP(g_state, (int)*(unsigned char *)(cp - 1)); g_state = STEP(g_state, (int)*(unsigned char *)cp); g_pos += 2; g_la = (cp + 1 < end) ? (int)*(unsigned char *)(cp + 1) : -1; }
                else /* invalid folding syntax */
                    return inverse(EEAV_LPART_INVALID_FOLDING);
                break;
            }
            /* XXX: there is should be a check for single LF ... */
            }
        }
    }

    /* local-part with open quote is not allowed */
    if (quote)
        return inverse(EEAV_LPART_UNQUOTED);

    return EEAV_NO_ERROR;
}
