#include "fC.c"
#include <stddef.h>
#include "ghostC.h"
const char *g_s; size_t g_n; size_t g_a, g_b; int g_have_b;
_Bool nondet_bool(void); size_t nondet_size(void);
/* job-B model of strchr(p,'.'): only the two facts established by job A are used */
char *strchr(const char *p, int c)
{
  __CPROVER_assert(c == '.' && __CPROVER_same_object(p, g_s), "strchr modelled for '.' on the input string");
  size_t i = (size_t)__CPROVER_POINTER_OFFSET(p);
  __CPROVER_assert(i <= g_n, "strchr argument within the string");
  if (g_have_b && i == g_b) return (char *)p + (g_a - 1 - g_b);
  if (i == g_a) return (char *)0;
  if (nondet_bool()) return (char *)0;
  size_t j = nondet_size();
  __CPROVER_assume(i <= j && j < g_n && p[j - i] == '.' && j + 1 <= g_n);
  return (char *)p + (j - i);
}

/* recording model of memcpy: which range of the input was copied */
const void *g_cp_src; size_t g_cp_n; void *g_cp_dst; int g_cp_calls;
void *memcpy(void *dst, const void *src, size_t n)
{ __CPROVER_assert(n <= 9, "label copy is at most 9 bytes"); g_cp_src = src; g_cp_n = n; g_cp_dst = dst; g_cp_calls++; return dst; }
/* oracle model of strncasecmp: g_last_res / g_last_ex / g_prev_example say what the labels are equal to */
int g_last_res, g_last_ex, g_prev_example; int g_yes_expected;
#define LAST_COPIED(a) (g_a == 0 && g_cp_calls == 0 ? ((a) == g_s) : ((a) == g_cp_dst && g_cp_src == g_s + g_a && g_cp_n == g_n - g_a && ((const char *)(a))[g_cp_n] == 0))
int strncasecmp(const char *a, const char *b, size_t n)
{
  for (int k = 0; k < 5; k++) if (b == reserved[k].domain) {
    __CPROVER_assert(n == reserved[k].length, "compared on the word's length + 1");
    __CPROVER_assert(LAST_COPIED(a), "first operand is the NUL-terminated last label");
    return g_last_res == k ? 0 : 1; }
  for (int k = 0; k < 3; k++) if (b == example[k].domain) {
    __CPROVER_assert(n == example[k].length, "compared on the word's length + 1");
    __CPROVER_assert(LAST_COPIED(a), "first operand is the NUL-terminated last label");
    return g_last_ex == k ? 0 : 1; }
  __CPROVER_assert(n == 8 && a[0]=='e'&&a[1]=='x'&&a[2]=='a'&&a[3]=='m'&&a[4]=='p'&&a[5]=='l'&&a[6]=='e'&&a[7]==0, "literal example, 8 bytes");
  __CPROVER_assert(b == g_cp_dst && g_have_b && g_cp_src == g_s + g_b && g_cp_n == g_a - 1 - g_b && b[g_cp_n] == 0, "second operand is the NUL-terminated second-to-last label");
  return g_prev_example ? 0 : 1;
}
int is_special_domain(const char *start, const char *end)
__CPROVER_requires(g_n >= 1 && g_n <= 253 && __CPROVER_is_fresh(start, g_n + 1) && __CPROVER_pointer_in_range_dfcc(start, end, start + g_n) && end == start + g_n && g_s == start && start[g_n] == 0 && start[g_n-1] != '.')
__CPROVER_requires(g_a <= g_n && (g_a == 0 || start[g_a-1] == '.') && g_have_b == (g_a != 0))
__CPROVER_requires(g_have_b ==> (g_b + 1 < g_a || g_b + 1 == g_a) && (g_b == 0 || start[g_b-1] == '.'))
__CPROVER_assigns(g_cp_src, g_cp_n, g_cp_dst, g_cp_calls)
__CPROVER_requires(g_cp_calls == 0 && g_last_res >= -1 && g_last_res < 5 && g_last_ex >= -1 && g_last_ex < 3)
/* oracle consistency: a word of length L can only equal a label of length L */
__CPROVER_requires(g_last_res >= 0 ==> g_n - g_a + 1 == reserved[g_last_res].length)
__CPROVER_requires(g_last_ex >= 0 ==> g_n - g_a == 3)
__CPROVER_requires(g_prev_example ==> (g_have_b && g_a - 1 - g_b == 7))
__CPROVER_ensures((__CPROVER_return_value != 0) == (g_last_res >= 0 || (g_prev_example && g_last_ex >= 0)))
;
void harness(void){ const char *s,*e; is_special_domain(s,e); }
