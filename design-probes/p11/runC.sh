set -e
goto-cc -I/repo/include -I. -D_DEFAULT_SOURCE --function harness hC.c fC.c -o aC.gb
goto-instrument --dfcc harness --enforce-contract is_special_domain --apply-loop-contracts aC.gb bC.gb 2>&1 | grep -iE "error|warn" || true
timeout 900 cbmc bC.gb --unwind 12 --unwinding-assertions --bounds-check --pointer-check --signed-overflow-check --pointer-overflow-check "$@"
