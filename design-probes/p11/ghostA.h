#include <stddef.h>
extern const char *g_s; extern size_t g_n; extern size_t *g_rank;

extern size_t g_a, g_b; extern int g_have_b;
#ifdef JOB_A
#define CUT_NODOTS { __CPROVER_assert(g_rank[g_n] == 0, "cut: no-dot path taken iff there is no dot"); __CPROVER_assume(0); }
#define CUT_AFTER_SKIP { __CPROVER_assume(((cp == start || cp[-1] == '.') && g_have_b && g_rank[cp - start] == g_rank[g_b]) ==> (size_t)(cp - start) == g_b); /* lemma instance: label starts of equal rank coincide */ __CPROVER_assert(g_rank[g_n] >= 1 && g_have_b && (size_t)(cp - start) == g_b, "cut: cp is the start of the second-to-last label"); __CPROVER_assume(0); }
#else
#define CUT_NODOTS { __CPROVER_assume(g_rank[g_n] == 0 && g_a == 0); }
#define CUT_AFTER_SKIP { __CPROVER_assume(g_have_b && (size_t)(cp - start) == g_b); }
#endif
