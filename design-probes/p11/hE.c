#include "fA.c"
#include <stddef.h>
#include "ghostA.h"
const char *g_s; size_t g_n; size_t *g_rank; size_t g_a, g_b; int g_have_b;
_Bool nondet_bool(void); size_t nondet_size(void);
/* trusted model of libc strchr(p,'.') on the ghost-described string: rank[i] = number of dots in s[0..i) */
char *strchr(const char *p, int c)
{
  __CPROVER_assert(c == '.' && __CPROVER_same_object(p, g_s), "strchr modelled for '.' on the input string");
  size_t i = (size_t)(p - g_s);
  __CPROVER_assert(i <= g_n, "strchr argument within the string");
  if (nondet_bool()) {
    size_t j = nondet_size();
    __CPROVER_assume(i <= j && j < g_n && p[j - i] == '.' && g_rank[j] == g_rank[i] && g_rank[j+1] == g_rank[i] + 1);
    /* lemma instances (dots / label starts of equal rank coincide), proved separately by induction */
    __CPROVER_assume((g_a >= 1 && g_rank[g_a-1] == g_rank[j]) ==> j == g_a - 1);
    __CPROVER_assume((g_have_b && g_b >= 1 && g_rank[g_b-1] == g_rank[j]) ==> j == g_b - 1);
    __CPROVER_assume((g_have_b && g_rank[j+1] == g_rank[g_b]) ==> j + 1 == g_b); /* lemma: label starts of equal rank coincide */
    __CPROVER_assume(g_rank[j+1] <= j + 1 && g_rank[j+1] <= g_rank[g_n]); /* lemma: rank[k] <= k */
    return (char *)p + (j - i);
  }
  __CPROVER_assume(g_rank[g_n] == g_rank[i]);
  return (char *)0;
}
#define LOW(c) (((c)>='A'&&(c)<='Z') ? (c)+32 : (c))
#define CH(i) LOW((int)(unsigned char)g_s[i])
#define EQ3(o,x,y,z) (CH(o)==x&&CH((o)+1)==y&&CH((o)+2)==z)
#define EQ4(o,a,b,c,d) (EQ3(o,a,b,c)&&CH((o)+3)==d)
#define EQ5(o,a,b,c,d,e) (EQ4(o,a,b,c,d)&&CH((o)+4)==e)
#define EQ7(o,a,b,c,d,e,f,g) (EQ5(o,a,b,c,d,e)&&CH((o)+5)==f&&CH((o)+6)==g)
#define EQ9(o,a,b,c,d,e,f,g,h,i) (EQ7(o,a,b,c,d,e,f,g)&&CH((o)+7)==h&&CH((o)+8)==i)
#define LASTLEN (g_n - g_a)
#define LAST_RESERVED ((LASTLEN==4&&EQ4(g_a,'t','e','s','t'))||(LASTLEN==7&&(EQ7(g_a,'e','x','a','m','p','l','e')||EQ7(g_a,'i','n','v','a','l','i','d')))||(LASTLEN==9&&EQ9(g_a,'l','o','c','a','l','h','o','s','t'))||(LASTLEN==5&&EQ5(g_a,'o','n','i','o','n')))
#define TWO_RESERVED (g_have_b && (g_a-1-g_b)==7 && EQ7(g_b,'e','x','a','m','p','l','e') && LASTLEN==3 && (EQ3(g_a,'c','o','m')||EQ3(g_a,'n','e','t')||EQ3(g_a,'o','r','g')))

const void *g_cp_src; size_t g_cp_n; void *g_cp_dst; int g_cp_calls;
void *memcpy(void *dst, const void *src, size_t n)
{ __CPROVER_assert(n <= 9, "label copy is at most 9 bytes"); g_cp_src = src; g_cp_n = n; g_cp_dst = dst; g_cp_calls++; return dst; }
int g_last_res, g_last_ex, g_prev_example;
#define LAST_COPIED(a) (g_a == 0 && g_cp_calls == 0 ? ((a) == g_s) : ((a) == g_cp_dst && g_cp_src == g_s + g_a && g_cp_n == g_n - g_a && ((const char *)(a))[g_cp_n] == 0))
int strncasecmp(const char *a, const char *b, size_t n)
{
  for (int k = 0; k < 5; k++) if (b == reserved[k].domain) {
    __CPROVER_assert(n == reserved[k].length, "compared on the word's length + 1");
    __CPROVER_assert(LAST_COPIED(a), "first operand is the NUL-terminated last label");
    return g_last_res == k ? 0 : 1; }
  for (int k = 0; k < 3; k++) if (b == example[k].domain) {
    __CPROVER_assert(n == example[k].length, "compared on the word's length + 1");
    __CPROVER_assert(LAST_COPIED(a), "first operand is the NUL-terminated last label");
    return g_last_ex == k ? 0 : 1; }
  __CPROVER_assert(n == 8 && a[0]=='e'&&a[1]=='x'&&a[2]=='a'&&a[3]=='m'&&a[4]=='p'&&a[5]=='l'&&a[6]=='e'&&a[7]==0, "literal example, 8 bytes");
  __CPROVER_assert(b == g_cp_dst && g_have_b && g_cp_src == g_s + g_b && g_cp_n == g_a - 1 - g_b && b[g_cp_n] == 0, "second operand is the NUL-terminated second-to-last label");
  return g_prev_example ? 0 : 1;
}
int is_special_domain(const char *start, const char *end)
__CPROVER_requires(g_n >= 1 && g_n <= 253 && __CPROVER_is_fresh(start, g_n + 1) && __CPROVER_pointer_in_range_dfcc(start, end, start + g_n) && end == start + g_n && g_s == start && start[g_n] == 0 && start[g_n-1] != '.')
__CPROVER_requires(__CPROVER_is_fresh(g_rank, (g_n + 1) * sizeof(size_t)) && g_rank[0] == 0 && g_rank[g_n] <= g_n)
/* witnesses: a = start of last label, b = start of second-to-last label */
__CPROVER_requires(g_a <= g_n && g_rank[g_a] == g_rank[g_n] && (g_a == 0 ? g_rank[g_n] == 0 : (start[g_a-1] == '.' && g_rank[g_a-1] + 1 == g_rank[g_a])))
__CPROVER_requires(g_have_b == (g_a != 0))
__CPROVER_requires(g_have_b ==> (g_b < g_a && g_rank[g_b] + 1 == g_rank[g_a] && (g_b == 0 ? g_rank[g_b] == 0 : (start[g_b-1] == '.' && g_rank[g_b-1] + 1 == g_rank[g_b]))))
__CPROVER_assigns(g_cp_src, g_cp_n, g_cp_dst, g_cp_calls)
__CPROVER_requires(g_cp_calls == 0 && g_last_res >= -1 && g_last_res < 5 && g_last_ex >= -1 && g_last_ex < 3)
__CPROVER_requires(g_last_res >= 0 ==> g_n - g_a + 1 == reserved[g_last_res].length)
__CPROVER_requires(g_last_ex >= 0 ==> g_n - g_a == 3)
__CPROVER_requires(g_prev_example ==> (g_have_b && g_a - 1 - g_b == 7))
__CPROVER_ensures((__CPROVER_return_value != 0) == (g_last_res >= 0 || (g_prev_example && g_last_ex >= 0)))
;
void harness(void){ const char *s,*e; is_special_domain(s,e); }
