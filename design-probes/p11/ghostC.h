#include <stddef.h>
extern const char *g_s; extern size_t g_n; extern size_t g_a, g_b; extern int g_have_b;
#define CUT_NODOTS { __CPROVER_assume(g_a == 0 && !g_have_b); }
#define CUT_AFTER_SKIP { __CPROVER_assume(g_have_b && (size_t)(cp - start) == g_b); }
