set -e
goto-cc -I/repo/include -I. -D_DEFAULT_SOURCE -DJOB_A --function harness hA.c fB.c -o aB.gb
goto-instrument --dfcc harness --enforce-contract is_special_domain --apply-loop-contracts aB.gb bB.gb 2>&1 | grep -iE "error|warn" || true
timeout 900 cbmc bB.gb --unwind 12 --unwinding-assertions --bounds-check --pointer-check --signed-overflow-check --pointer-overflow-check "$@"
