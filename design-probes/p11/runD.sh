set -e
goto-cc -I/repo/include -I. -D_DEFAULT_SOURCE --function harness hD.c -o aD.gb
goto-instrument --dfcc harness --enforce-contract is_special_domain --apply-loop-contracts aD.gb bD.gb 2>&1 | grep -iE "error|warn" || true
timeout 600 cbmc bD.gb --unwind 12 --unwinding-assertions --bounds-check --pointer-check --signed-overflow-check --pointer-overflow-check "$@"
