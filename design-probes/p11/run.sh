set -e
goto-cc -I/repo/include -I. -D_DEFAULT_SOURCE --function harness h.c ${SRC:-f.c} -o a.gb
goto-instrument --dfcc harness --enforce-contract is_special_domain --apply-loop-contracts a.gb b.gb 2>&1 | grep -iE "error|warn" || true
timeout 1500 cbmc b.gb --unwind 12 --unwinding-assertions --bounds-check --pointer-check --signed-overflow-check --pointer-overflow-check "$@"
