#include <stddef.h>
extern const char *g_s; extern size_t g_n; extern size_t *g_rank;
