#include "/repo/src/auto_tld.c"
#include "spec_tld.h"
void harness(void){
  __CPROVER_assert(sizeof(tld_list)/sizeof(tld_list[0]) == SPEC_N+1, "row count");
  for (unsigned i=0;i<SPEC_N;i++){
    const char *a=tld_list[i].domain,*b=spec_tld[i].name; unsigned j=0;
    __CPROVER_assert(a!=NULL,"nonnull");
    for(;;j++){ __CPROVER_assert(a[j]==b[j],"name equal"); __CPROVER_assert(a[j]==0 || (a[j]>='a'&&a[j]<='z')||(a[j]>='0'&&a[j]<='9')||a[j]=='-',"lower LDH"); if(!a[j]) break; }
    __CPROVER_assert(tld_list[i].length==j+1,"length is strlen+1");
    __CPROVER_assert(tld_list[i].type==spec_tld[i].cls,"class");
    if (i>0) { /* strictly sorted => unique */
      const char *p=tld_list[i-1].domain; unsigned k=0; while(p[k]&&p[k]==a[k])k++; __CPROVER_assert((unsigned char)p[k]<(unsigned char)a[k],"strictly increasing => unique"); }
  }
  __CPROVER_assert(tld_list[SPEC_N].domain==NULL,"sentinel");
}
