set -e
goto-cc -D__NO_CTYPE -I/repo/include -I. -D_DEFAULT_SOURCE --function harness h45.c fu.c -o au.gb
goto-instrument --dfcc harness --enforce-contract is_ipv6 au.gb bu.gb 2>&1 | grep -iE "error|warn" || true
timeout 540 cbmc bu.gb --unwindset is_ipv6.0:${UNW:-18} --unwinding-assertions --bounds-check --pointer-check --signed-overflow-check --pointer-overflow-check "$@"
