/* Specification automata for address literals (property C05), from the property text.
 *
 * IPv4: four decimal octets 0-255 separated by single dots.
 *   state: ph (Q_START at the start of an octet, Q_DIG inside one, Q_DEAD), cnt = octets started,
 *   val = value of the current octet, fnz = first octet is known to be non-zero.
 *   An octet may have any number of digits as long as its value stays <= 255 (the property leaves
 *   octets with leading zeros open; its converse direction speaks of 1-3 digit octets only).
 * IPv6: RFC 4291 section 2.2 text form: 8 groups of 1-4 hex digits separated by ':', or fewer with
 *   one '::'; the last two groups may be written as a dotted quad.
 */
#ifndef SPEC_IP_H
#define SPEC_IP_H
enum { Q_START, Q_DIG, Q_DEAD };
#define Q_IS_DIGIT(c) ((c) >= '0' && (c) <= '9')
#define Q_NEXT_PH(ph, cnt, val, c) ( (ph) == Q_DEAD ? Q_DEAD : \
    Q_IS_DIGIT(c) ? ((ph) == Q_START ? ((cnt) < 4 ? Q_DIG : Q_DEAD) : ((val) * 10 + ((c) - '0') <= 255 ? Q_DIG : Q_DEAD)) : \
    (c) == '.' ? ((ph) == Q_DIG ? Q_START : Q_DEAD) : Q_DEAD )
#define Q_NEXT_CNT(ph, cnt, c) ((Q_IS_DIGIT(c) && (ph) == Q_START && (cnt) < 4) ? (cnt) + 1 : (cnt))
#define Q_NEXT_VAL(ph, val, c) (Q_IS_DIGIT(c) ? ((ph) == Q_START ? (c) - '0' : ((val) * 10 + ((c) - '0') <= 255 ? (val) * 10 + ((c) - '0') : (val))) : (val))
#define Q_ACC(ph, cnt) ((ph) == Q_DIG && (cnt) == 4)

/* IPv6 (hex groups part; a dotted-quad tail is handed to the IPv4 automaton and counts as two groups) */
/* phases: V_START nothing read; V_HEX inside a group; V_C1 after the single ':' that follows a group;
   V_LEAD after a ':' at the very start (must be followed by another ':'); V_DC just after a '::';
   V_DEAD.  groups = groups started, hex = digits of the current group, dc = a '::' was seen,
   colons = number of ':' read (ghost only, for the counting lemma). */
enum { V_START, V_HEX, V_C1, V_LEAD, V_DC, V_DEAD };
#define V_IS_HEX(c) (((c)>='0'&&(c)<='9')||((c)>='a'&&(c)<='f')||((c)>='A'&&(c)<='F'))
#define V_NEXT_PH(ph, groups, hex, dc, c) ( (ph) == V_DEAD ? V_DEAD : \
    V_IS_HEX(c) ? ( (ph) == V_START ? V_HEX : ((ph) == V_C1 || (ph) == V_DC) ? ((groups) < 8 ? V_HEX : V_DEAD) : \
                    ((ph) == V_HEX && (hex) < 4) ? V_HEX : V_DEAD ) : \
    (c) == ':' ? ( (ph) == V_START ? V_LEAD : (ph) == V_HEX ? V_C1 : (((ph) == V_C1 && !(dc)) || (ph) == V_LEAD) ? V_DC : V_DEAD ) : V_DEAD )
#define V_NEXT_GROUPS(ph, groups, c) ((V_IS_HEX(c) && ((ph) == V_START || (((ph) == V_C1 || (ph) == V_DC) && (groups) < 8))) ? (groups) + 1 : (groups))
#define V_NEXT_HEX(ph, hex, c) (V_IS_HEX(c) ? (((ph) == V_HEX && (hex) < 4) ? (hex) + 1 : ((ph) == V_HEX ? (hex) : 1)) : 0)
#define V_NEXT_DC(ph, dc, c) (((c) == ':' && (((ph) == V_C1 && !(dc)) || (ph) == V_LEAD)) ? 1 : (dc))
/* RFC 4291: 8 groups, or fewer with one '::' */
#define V_ACC(ph, groups, dc) (((ph) == V_HEX || (ph) == V_DC) && ((dc) ? (groups) <= 7 : (groups) == 8))
/* the same with the last two groups written as a dotted quad: we are inside the group that turns out to be
   the first octet, so groups-1 hex groups precede it and the quad counts for two */
#define V_ACC_V4TAIL(ph, groups, dc) ((ph) == V_HEX && ((dc) ? (groups) <= 6 : (groups) == 7))
/* RFC 5321 4.1.3 (IPv6-full / IPv6-comp): with '::' at most 6 groups */
#define V_ACC_5321(ph, groups, dc) (((ph) == V_HEX || (ph) == V_DC) && ((dc) ? (groups) <= 6 : (groups) == 8))
#define V_ACC_V4TAIL_5321(ph, groups, dc) ((ph) == V_HEX && ((dc) ? (groups) <= 5 : (groups) == 7))
#endif
