/* Unicode 15 Table 3-7, "Well-Formed UTF-8 Byte Sequences", as a predicate over up to four bytes
 * b0..b3 (-1 = byte not available), the length of the sequence and its code point.
 * Written from the table, not from the decoder. */
#ifndef SPEC_UTF8_H
#define SPEC_UTF8_H
#define U_IN(x,lo,hi) ((x) >= (lo) && (x) <= (hi))
#define U_WF1(b0)          (U_IN(b0,0x00,0x7F))
#define U_WF2(b0,b1)       (U_IN(b0,0xC2,0xDF) && U_IN(b1,0x80,0xBF))
#define U_WF3(b0,b1,b2)    (( ((b0)==0xE0 && U_IN(b1,0xA0,0xBF)) || (U_IN(b0,0xE1,0xEC) && U_IN(b1,0x80,0xBF)) || \
                              ((b0)==0xED && U_IN(b1,0x80,0x9F)) || (U_IN(b0,0xEE,0xEF) && U_IN(b1,0x80,0xBF)) ) && U_IN(b2,0x80,0xBF))
#define U_WF4(b0,b1,b2,b3) (( ((b0)==0xF0 && U_IN(b1,0x90,0xBF)) || (U_IN(b0,0xF1,0xF3) && U_IN(b1,0x80,0xBF)) || \
                              ((b0)==0xF4 && U_IN(b1,0x80,0x8F)) ) && U_IN(b2,0x80,0xBF) && U_IN(b3,0x80,0xBF))
/* length of the well-formed sequence starting with b0.., 0 if there is none */
#define U_WFLEN(b0,b1,b2,b3) (U_WF1(b0) ? 1 : U_WF2(b0,b1) ? 2 : U_WF3(b0,b1,b2) ? 3 : U_WF4(b0,b1,b2,b3) ? 4 : 0)
#define U_CP(b0,b1,b2,b3) (U_WF1(b0) ? (b0) : U_WF2(b0,b1) ? ((((b0)&0x1F)<<6)|((b1)&0x3F)) : \
        U_WF3(b0,b1,b2) ? ((((b0)&0x0F)<<12)|(((b1)&0x3F)<<6)|((b2)&0x3F)) : \
        ((((b0)&0x07)<<18)|(((b1)&0x3F)<<12)|(((b2)&0x3F)<<6)|((b3)&0x3F)))
#endif
