/* Specification automaton for host names (property C04), from the property text:
 *   one or more labels separated by single dots, optionally one root dot; each label 1..63 letters,
 *   digits and interior hyphens ('_' counts as a letter only with LABELS_ALLOW_UNDERSCORE); at most 253
 *   characters not counting the root dot; not made solely of digits and dots.
 * State: phase (H_START at a label start, H_ALNUM after a letter/digit, H_HYPHEN after a hyphen,
 * H_DEAD), run = length of the current label so far, nn = a byte other than digit / dot was seen.
 * The automaton is run over the "effective" string (root dot stripped).
 */
#ifndef SPEC_HOST_H
#define SPEC_HOST_H
enum { H_START, H_ALNUM, H_HYPHEN, H_DEAD };
#ifdef LABELS_ALLOW_UNDERSCORE
#define H_IS_LETDIG(c) (((c)>='0'&&(c)<='9')||((c)>='A'&&(c)<='Z')||((c)>='a'&&(c)<='z')||(c)=='_')
#else
#define H_IS_LETDIG(c) (((c)>='0'&&(c)<='9')||((c)>='A'&&(c)<='Z')||((c)>='a'&&(c)<='z'))
#endif
#define H_IS_DIGIT(c) ((c)>='0'&&(c)<='9')
#define H_MAXLABEL 63
#define H_MAXNAME 253

#define H_NEXT_RUN(run, c) ((c) == '.' ? 0 : ((run) < 1000 ? (run) + 1 : (run)))   /* saturating, never overflows */
#define H_NEXT_PH(ph, run, c) ( (ph) == H_DEAD ? H_DEAD : \
    H_IS_LETDIG(c) ? ((run) + 1 <= H_MAXLABEL ? H_ALNUM : H_DEAD) : \
    (c) == '.' ? ((ph) == H_ALNUM ? H_START : H_DEAD) : \
    (c) == '-' ? ((((ph) == H_ALNUM || (ph) == H_HYPHEN) && (run) + 1 <= H_MAXLABEL) ? H_HYPHEN : H_DEAD) : H_DEAD )
#define H_NEXT_NN(nn, c) (((nn) || !(H_IS_DIGIT(c) || (c) == '.')) ? 1 : 0)
/* effective length: the root dot is stripped iff the name has at least two bytes and ends in '.' */
#define H_EFF(len, last) (((len) >= 2 && (last) == '.') ? (len) - 1 : (len))
#define H_ACC(ph, nn) ((ph) == H_ALNUM && (nn) == 1)
#endif
