/* Specification automata for local parts (properties C02, C03, C12, C17).
 *
 * Written from the property text, not from the code.  Each automaton reads one byte (ASCII
 * modes) or one decoded character (mode 6531: every code point > 127 is "one more atom /
 * quoted-text character") at a time.  Pure C expressions: used inside CBMC contracts as ghost
 * state, in the loop-free lemma jobs, and natively by the replay oracle.
 *
 *   local-part = word *("." word)        word = atom / quoted-string
 *   states:  L_START  at a word boundary (start of input or just after a separating dot)
 *            L_ATOM   inside an atom
 *            L_QEND   just after the closing DQUOTE of a quoted string (only "." or the end may follow)
 *            L_Q*     inside a quoted string (mode-specific sub-states)
 *            L_DEAD   no extension of the input read so far is a local part (absorbing)
 *   accepting: L_ATOM, L_QEND
 */
#ifndef SPEC_LOCAL_H
#define SPEC_LOCAL_H

enum { L_START, L_ATOM, L_QEND, L_QTEXT, L_QPAIR, L_QCR, L_QCRLF, L_QDQWS, L_QOTHER, L_QPEND, L_DEAD };

#define L_ACC(g) ((g) == L_ATOM || (g) == L_QEND)

/* the specials of the property: ()<>@,;:\".[]  */
#define L_IS_SPECIAL(c) ((c)=='('||(c)==')'||(c)=='<'||(c)=='>'||(c)=='@'||(c)==','||(c)==';'||(c)==':'||(c)=='\\'||(c)=='"'||(c)=='.'||(c)=='['||(c)==']')
/* atom character: printable ASCII other than space and the specials */
#define L_IS_ATEXT(c) ((c) > 32 && (c) < 127 && !L_IS_SPECIAL(c))
#define L_IS_PRINT(c) ((c) >= 32 && (c) < 127)
#define L_IS_WS(c) ((c)==' '||(c)=='\t'||(c)=='\r'||(c)=='\n')
#define L_IS_DQWS(c) ((c)=='"'||L_IS_WS(c))

/* the unquoted part is the same in all modes (C12); ATEXT is a parameter because 6531 extends it */
#define L_UNQ(g, c, ATEXT, QOPEN) ( \
  (g)==L_START ? (ATEXT(c) ? L_ATOM : (c)=='"' ? (QOPEN) : L_DEAD) : \
  (g)==L_ATOM  ? (ATEXT(c) ? L_ATOM : (c)=='.' ? L_START : L_DEAD) : \
  /* L_QEND */   ((c)=='.' ? L_START : L_DEAD) )
#define L_IS_UNQ(g) ((g)==L_START || (g)==L_ATOM || (g)==L_QEND)

/* ---- RFC 5321: no control character anywhere; backslash escapes only printable ASCII */
#define L5321_IS_QTEXT(c) (L_IS_PRINT(c) && (c)!='"' && (c)!='\\')
#define SPEC5321_STEP(g, c) ( (c) > 127 ? L_DEAD : \
  L_IS_UNQ(g) ? L_UNQ(g, c, L_IS_ATEXT, L_QTEXT) : \
  (g)==L_QTEXT ? ((c)=='"' ? L_QEND : (c)=='\\' ? L_QPAIR : L5321_IS_QTEXT(c) ? L_QTEXT : L_DEAD) : \
  (g)==L_QPAIR ? (L_IS_PRINT(c) ? L_QTEXT : L_DEAD) : L_DEAD )

/* ---- RFC 822: quoted content = any ASCII except an unescaped DQUOTE / backslash and a CR that is
        not CR LF followed by SP/HT; backslash escapes any ASCII */
#define SPEC822_STEP(g, c) ( (c) > 127 ? L_DEAD : \
  L_IS_UNQ(g) ? L_UNQ(g, c, L_IS_ATEXT, L_QTEXT) : \
  (g)==L_QPAIR ? L_QTEXT : \
  (g)==L_QTEXT ? ((c)=='"' ? L_QEND : (c)=='\\' ? L_QPAIR : (c)=='\r' ? L_QCR : L_QTEXT) : \
  (g)==L_QCR   ? ((c)=='\n' ? L_QCRLF : L_DEAD) : \
  (g)==L_QCRLF ? (((c)==' '||(c)=='\t') ? L_QTEXT : L_DEAD) : L_DEAD )

/* ---- RFC 5322: controls other than whitespace are quoted text; an unescaped SP/HT/CR/LF only next
        to a DQUOTE or another whitespace; backslash escapes any ASCII.
        L_QDQWS: in quotes, previous byte is DQUOTE or whitespace; L_QOTHER: previous byte is something
        else; L_QPEND: a whitespace was read after "something else" and is only justified if the next
        byte is DQUOTE or whitespace. */
#define L5322_INQ(g) ((g)==L_QDQWS||(g)==L_QOTHER||(g)==L_QPEND)
#define SPEC5322_STEP(g, c) ( (c) > 127 ? L_DEAD : \
  L_IS_UNQ(g) ? L_UNQ(g, c, L_IS_ATEXT, L_QDQWS) : \
  (g)==L_QPAIR ? (L_IS_DQWS(c) ? L_QDQWS : L_QOTHER) : \
  L5322_INQ(g) ? ( ((g)==L_QPEND && !L_IS_DQWS(c)) ? L_DEAD : (c)=='"' ? L_QEND : (c)=='\\' ? L_QPAIR : \
                   L_IS_WS(c) ? ((g)==L_QOTHER ? L_QPEND : L_QDQWS) : L_QOTHER ) : L_DEAD )

/* ---- RFC 6531, default build: the 5321 rules with every non-ASCII character one more atom /
        quoted-text character; a backslash may escape only printable ASCII.  Input: code points.
        RFC6531_FOLLOW_RFC20 (C17): # ^ ` { | } ~ are not atom characters. */
#define L_IS_RFC20_CHAR(c) ((c)=='#'||(c)=='^'||(c)=='`'||(c)=='{'||(c)=='|'||(c)=='}'||(c)=='~')
#define L6531_IS_ATEXT_DEFAULT(c) ((L_IS_ATEXT(c)) || (c) > 127)
#define L6531_IS_ATEXT_RFC20(c)   (((L_IS_ATEXT(c)) && !L_IS_RFC20_CHAR(c)) || (c) > 127)
#define L6531_IS_QTEXT(c) (L5321_IS_QTEXT(c) || (c) > 127)
#define SPEC6531_STEP_WITH(g, c, ATEXT) ( \
  L_IS_UNQ(g) ? L_UNQ(g, c, ATEXT, L_QTEXT) : \
  (g)==L_QTEXT ? ((c)=='"' ? L_QEND : (c)=='\\' ? L_QPAIR : L6531_IS_QTEXT(c) ? L_QTEXT : L_DEAD) : \
  (g)==L_QPAIR ? (L_IS_PRINT(c) ? L_QTEXT : L_DEAD) : L_DEAD )
#define SPEC6531_STEP_DEFAULT(g, c) SPEC6531_STEP_WITH(g, c, L6531_IS_ATEXT_DEFAULT)
#define SPEC6531_STEP_RFC20(g, c)   SPEC6531_STEP_WITH(g, c, L6531_IS_ATEXT_RFC20)
#ifdef RFC6531_FOLLOW_RFC20
#define SPEC6531_STEP(g, c) SPEC6531_STEP_RFC20(g, c)
#else
#define SPEC6531_STEP(g, c) SPEC6531_STEP_DEFAULT(g, c)
#endif

#endif
