/* Meaning of the EAV_VERIF_* hooks of /repo (include/eav/verif_hooks.h) in a verification build.
 *
 * A harness defines EAV_VERIF_LOOP_<id> / EAV_VERIF_STEP_<id> / EAV_VERIF_AT_<id> for the loops of
 * the function it proves *before* it includes the real source file; every id it leaves undefined
 * expands to nothing (that loop is then not under contract in this job).  An id that /repo uses
 * and this file does not know is a compile error (=> the check is undecided, exit 2): the list
 * below is the complete list of hooks the machinery expects.
 */
#ifndef LIBEAV_VERIF_LOOPS_H
#define LIBEAV_VERIF_LOOPS_H

#define EAV_VERIF_LOOP(id) EAV_VERIF_LOOP_##id
#define EAV_VERIF_STEP(id) EAV_VERIF_STEP_##id
#define EAV_VERIF_AT(id)   EAV_VERIF_AT_##id

#ifndef EAV_VERIF_LOOP_is_822_local
#define EAV_VERIF_LOOP_is_822_local
#endif
#ifndef EAV_VERIF_STEP_is_822_local
#define EAV_VERIF_STEP_is_822_local
#endif
#ifndef EAV_VERIF_AT_is_822_local_fold
#define EAV_VERIF_AT_is_822_local_fold
#endif
#ifndef EAV_VERIF_LOOP_is_5321_local
#define EAV_VERIF_LOOP_is_5321_local
#endif
#ifndef EAV_VERIF_STEP_is_5321_local
#define EAV_VERIF_STEP_is_5321_local
#endif
#ifndef EAV_VERIF_LOOP_is_5322_local
#define EAV_VERIF_LOOP_is_5322_local
#endif
#ifndef EAV_VERIF_STEP_is_5322_local
#define EAV_VERIF_STEP_is_5322_local
#endif
#ifndef EAV_VERIF_LOOP_is_6531_local
#define EAV_VERIF_LOOP_is_6531_local
#endif
#ifndef EAV_VERIF_STEP_is_6531_local
#define EAV_VERIF_STEP_is_6531_local
#endif
#ifndef EAV_VERIF_AT_is_6531_local_fws
#define EAV_VERIF_AT_is_6531_local_fws
#endif
#ifndef EAV_VERIF_LOOP_is_ascii_domain
#define EAV_VERIF_LOOP_is_ascii_domain
#endif
#ifndef EAV_VERIF_STEP_is_ascii_domain
#define EAV_VERIF_STEP_is_ascii_domain
#endif
#ifndef EAV_VERIF_LOOP_is_ipv4
#define EAV_VERIF_LOOP_is_ipv4
#endif
#ifndef EAV_VERIF_STEP_is_ipv4
#define EAV_VERIF_STEP_is_ipv4
#endif
#ifndef EAV_VERIF_LOOP_is_ipv6
#define EAV_VERIF_LOOP_is_ipv6
#endif
#ifndef EAV_VERIF_STEP_is_ipv6
#define EAV_VERIF_STEP_is_ipv6
#endif
#ifndef EAV_VERIF_AT_is_ipv6_colon
#define EAV_VERIF_AT_is_ipv6_colon
#endif
#ifndef EAV_VERIF_AT_is_ipv6_hex
#define EAV_VERIF_AT_is_ipv6_hex
#endif
#ifndef EAV_VERIF_LOOP_is_tld
#define EAV_VERIF_LOOP_is_tld
#endif
#ifndef EAV_VERIF_STEP_is_tld
#define EAV_VERIF_STEP_is_tld
#endif
#ifndef EAV_VERIF_LOOP_is_special_domain_count
#define EAV_VERIF_LOOP_is_special_domain_count
#endif
#ifndef EAV_VERIF_AT_is_special_domain_nodot
#define EAV_VERIF_AT_is_special_domain_nodot
#endif
#ifndef EAV_VERIF_LOOP_is_special_domain_skip
#define EAV_VERIF_LOOP_is_special_domain_skip
#endif
#ifndef EAV_VERIF_STEP_is_special_domain_skip
#define EAV_VERIF_STEP_is_special_domain_skip
#endif
#ifndef EAV_VERIF_AT_is_special_domain_cut
#define EAV_VERIF_AT_is_special_domain_cut
#endif
#ifndef EAV_VERIF_LOOP_sanitize_utf8
#define EAV_VERIF_LOOP_sanitize_utf8
#endif
#ifndef EAV_VERIF_STEP_sanitize_utf8
#define EAV_VERIF_STEP_sanitize_utf8
#endif
#ifndef EAV_VERIF_LOOP_parse_file
#define EAV_VERIF_LOOP_parse_file
#endif
#ifndef EAV_VERIF_STEP_parse_file
#define EAV_VERIF_STEP_parse_file
#endif

#endif
