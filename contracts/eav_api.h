/* Contracts of the high-level API (partial/<backend>/eav.c, src/eav.c).
 * Postconditions are taken from properties C08, C13, C15, C19 (and C06 for the frame);
 * nothing here is derived from the body of the functions.
 */
#ifndef VERIF_EAV_API_H
#define VERIF_EAV_API_H
#include <stddef.h>
#include <stdbool.h>
#include <stdlib.h>
#include <eav.h>
#include <eav/auto_tld.h>

/* ---- specification of the policy (C08), from the property text and include/eav.h's documented bits */
#define SPEC_TLD_BIT(cls)  (1 << ((cls) + 1))            /* class k is governed by bit k+1 and no other */
#define SPEC_TLD_ERR(cls)  (EEAV_TLD_INVALID + (cls))    /* rejected class k reports error "k TLD" */
#define SPEC_DEFAULT_ALLOW (SPEC_TLD_BIT(TLD_TYPE_COUNTRY_CODE) | SPEC_TLD_BIT(TLD_TYPE_GENERIC) | \
        SPEC_TLD_BIT(TLD_TYPE_GENERIC_RESTRICTED) | SPEC_TLD_BIT(TLD_TYPE_INFRASTRUCTURE) | \
        SPEC_TLD_BIT(TLD_TYPE_SPONSORED) | SPEC_TLD_BIT(TLD_TYPE_SPECIAL))
        /* = every class except not-assigned, test, retired */

/* ---- ghost record of the callback invocation */
int rec_cb_which; int rec_cb_calls; const char *rec_cb_email; size_t rec_cb_len; bool rec_cb_tld;
eav_result_t *rec_cb_result;
int g_rc, g_idn_rc;                 /* what the callback will answer (universally quantified) */
eav_result_t *g_old_result;         /* pre-state binding */
const char *g_strerror_ret; int g_strerror_arg; int g_strerror_calls;
#ifdef HAVE_IDNKIT
idn_resconf_t rec_cb_ctx; idn_action_t rec_cb_actions;
#endif

/* the range every e-mail callback promises (proved for the real ones in the C01 jobs):
   0, a negative error code, or a TLD class 1..9 */
#define CB_RC_OK(rc) ((rc) > -EEAV_MAX && (rc) < TLD_TYPE_MAX)

#define CB_CONTRACT(ID) \
__CPROVER_assigns(rec_cb_which, rec_cb_calls, rec_cb_email, rec_cb_len, rec_cb_tld, rec_cb_result) \
__CPROVER_ensures(rec_cb_which == ID && rec_cb_calls == __CPROVER_old(rec_cb_calls) + 1 && rec_cb_email == email && rec_cb_len == length && rec_cb_tld == tld_check) \
__CPROVER_ensures(__CPROVER_is_fresh(__CPROVER_return_value, sizeof(eav_result_t)) && rec_cb_result == __CPROVER_return_value) \
__CPROVER_ensures(__CPROVER_return_value->rc == g_rc && __CPROVER_return_value->idn_rc == g_idn_rc) \
CB_EXTRA_ENSURES

#ifdef EAV_EXTRA
#define CB_EXTRA_ENSURES __CPROVER_ensures((__CPROVER_return_value->lpart == NULL || __CPROVER_is_fresh(__CPROVER_return_value->lpart, 1)) && (__CPROVER_return_value->domain == NULL || __CPROVER_is_fresh(__CPROVER_return_value->domain, 1)))
#else
#define CB_EXTRA_ENSURES
#endif

eav_result_t *is_822_email(const char *email, size_t length, bool tld_check) CB_CONTRACT(822);
eav_result_t *is_5321_email(const char *email, size_t length, bool tld_check) CB_CONTRACT(5321);
eav_result_t *is_5322_email(const char *email, size_t length, bool tld_check) CB_CONTRACT(5322);
#ifdef HAVE_IDNKIT
eav_result_t *is_6531_email(idn_resconf_t ctx, idn_action_t actions, const char *email, size_t length, bool tld_check)
__CPROVER_assigns(rec_cb_ctx, rec_cb_actions)
__CPROVER_ensures(rec_cb_ctx == ctx && rec_cb_actions == actions)
CB_CONTRACT(6531);
#else
eav_result_t *is_6531_email(const char *email, size_t length, bool tld_check) CB_CONTRACT(6531);
#endif

/* ---- object invariant of eav_t between API calls (C06, C13) */
#ifdef EAV_EXTRA
#define RESULT_OK(r) ((r) == NULL || (__CPROVER_is_fresh((r), sizeof(eav_result_t)) && \
        ((r)->lpart == NULL || __CPROVER_is_fresh((r)->lpart, 1)) && ((r)->domain == NULL || __CPROVER_is_fresh((r)->domain, 1))))
#else
#define RESULT_OK(r) ((r) == NULL || __CPROVER_is_fresh((r), sizeof(eav_result_t)))
#endif
#define MODE_OK(eav) ((eav)->utf8 ? (eav)->utf8_cb == is_6531_email : \
        ((eav)->ascii_cb == is_822_email || (eav)->ascii_cb == is_5321_email || (eav)->ascii_cb == is_5322_email))
#define WHICH(eav) ((eav)->utf8 ? 6531 : (eav)->ascii_cb == is_822_email ? 822 : (eav)->ascii_cb == is_5321_email ? 5321 : 5322)

#endif
