/* Contract of utf8_decode_next (src/utf8_decode.c), one text for two uses:
 *   - job utf8_decode_next ENFORCES all clauses (U8N_VIEW_ASCII and U8N_VIEW_FULL) on the real body;
 *   - a caller's job may REPLACE the call by this contract; it then sees either all clauses or, with
 *     -DU8N_ASCII_VIEW_ONLY, the sub-list U8N_VIEW_ASCII only (fewer symbolic reads of the input).  Assuming a
 *     sub-list of clauses that were proved under the same preconditions is sound.
 * No ghost variables: pre-state values are __CPROVER_old(), bytes are read from the (unmodified) input.
 * Needs <spec_utf8.h> and the declaration of utf8_decode_t / UTF8_END / UTF8_ERROR before it. */
#ifndef UTF8_NEXT_CONTRACT_H
#define UTF8_NEXT_CONTRACT_H

#define U8N_OI __CPROVER_old(u->the_index)
#define U8N_OB __CPROVER_old(u->the_byte)
#define U8N_OC __CPROVER_old(u->the_char)
#define U8N_LEN (u->the_length)
/* byte k of the sequence that starts at the old index, -1 = not available */
#define U8N_B(k) ((U8N_OI + (k) < U8N_LEN) ? (int)(unsigned char)u->the_input[U8N_OI + (k)] : -1)
#define U8N_WFLEN U_WFLEN(U8N_B(0), U8N_B(1), U8N_B(2), U8N_B(3))
#define U8N_CP    U_CP(U8N_B(0), U8N_B(1), U8N_B(2), U8N_B(3))

#define U8N_REQUIRES \
__CPROVER_requires(__CPROVER_is_fresh(u, sizeof(*u))) \
__CPROVER_requires(u->the_length >= 0 && u->the_length <= 0x7ffffff0 && __CPROVER_is_fresh(u->the_input, (size_t)u->the_length + 1)) \
__CPROVER_requires(u->the_index >= 0 && u->the_index <= u->the_length && u->the_char >= 0 && u->the_char <= u->the_index) \
__CPROVER_assigns(u->the_index, u->the_byte, u->the_char)

/* what a caller needs as long as it only distinguishes ASCII characters: one read of the input */
#define U8N_VIEW_ASCII \
__CPROVER_ensures(U8N_OI == U8N_LEN ==> (__CPROVER_return_value == UTF8_END && u->the_index == U8N_OI && u->the_byte == U8N_OB && u->the_char == U8N_OC)) \
__CPROVER_ensures(U8N_OI < U8N_LEN ==> (__CPROVER_return_value != UTF8_END && u->the_byte == U8N_OI && u->the_char == U8N_OC + 1 && u->the_index > U8N_OI && u->the_index <= U8N_LEN)) \
__CPROVER_ensures(__CPROVER_return_value >= 0 || __CPROVER_return_value == UTF8_END || __CPROVER_return_value == UTF8_ERROR) \
__CPROVER_ensures((U8N_OI < U8N_LEN && U8N_B(0) <= 127) ==> (__CPROVER_return_value == U8N_B(0) && u->the_index == U8N_OI + 1)) \
__CPROVER_ensures((U8N_OI < U8N_LEN && U8N_B(0) > 127) ==> (__CPROVER_return_value == UTF8_ERROR || (__CPROVER_return_value > 127 && __CPROVER_return_value <= 0x10FFFF && u->the_index > U8N_OI + 1)))

/* Unicode Table 3-7, both directions */
#define U8N_VIEW_FULL \
__CPROVER_ensures(U8N_WFLEN >= 1 ==> (u->the_index == U8N_OI + U8N_WFLEN && __CPROVER_return_value == U8N_CP)) \
__CPROVER_ensures((U8N_OI < U8N_LEN && U8N_WFLEN == 0) ==> (__CPROVER_return_value == UTF8_ERROR)) \
__CPROVER_ensures(__CPROVER_return_value >= 0 ==> (U8N_WFLEN >= 1 && __CPROVER_return_value <= 0x10FFFF && !U_IN(__CPROVER_return_value, 0xD800, 0xDFFF) && ((__CPROVER_return_value <= 0x7F) == (U8N_WFLEN == 1))))

#ifdef U8N_ASCII_VIEW_ONLY
#define U8N_CONTRACT U8N_REQUIRES U8N_VIEW_ASCII
#else
#define U8N_CONTRACT U8N_REQUIRES U8N_VIEW_ASCII U8N_VIEW_FULL
#endif

#endif
