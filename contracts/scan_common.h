/* Ghost state shared by the byte scanners and the macros their contracts are written with. */
#ifndef VERIF_SCAN_COMMON_H
#define VERIF_SCAN_COMMON_H
#include <stddef.h>
#include <eav.h>

int g_state;            /* state of the specification automaton after start[0..g_pos) */
size_t g_pos;           /* number of input bytes the ghost automaton has consumed */
size_t g_len;           /* length of the input (universally quantified) */
int g_cur;              /* the byte consumed last (start[g_pos-1]), -1 before the first */
int g_la, g_la2;        /* look-ahead: start[g_pos], start[g_pos+1]; -1 at/after the end */

#define MAXLEN ((size_t)1 << 40)

/* (start,end) delimit exactly the g_len bytes of one fresh object of g_len+1 bytes: the byte at
   `end` exists (every call site passes a pointer into a longer NUL-terminated string) */
#define RANGE_REQ(start, end, maxlen) (g_len <= (maxlen) && __CPROVER_is_fresh(start, g_len + 1) && \
        __CPROVER_pointer_in_range_dfcc(start, end, start + g_len) && end == start + g_len)

#define IN_OBJ(cp, start, end) (__CPROVER_same_object(cp, start) && \
        __CPROVER_POINTER_OFFSET(cp) >= __CPROVER_POINTER_OFFSET(start) && \
        __CPROVER_POINTER_OFFSET(cp) <= __CPROVER_POINTER_OFFSET(end))

#define BYTE_AT(p) ((int)*(const unsigned char *)(p))
#define LA_AT(p, end) (((p) < (end)) ? BYTE_AT(p) : -1)

#endif
