/* Contracts of the four e-mail functions (src/is_{822,5321,5322}_email.c, partial/<be>/is_6531_email.c)
 * and the recording contracts of everything they call.  Properties C01, C05 (bracket handling),
 * C07 (TLD stage), C08 (tld_check off), C12 (same text for the three ASCII modes), C15, C16.
 *
 * The input is described by ghost facts: g_len = strlen(email); g_last_at, g_last_rb, g_first_colon,
 * g_last_dot are indices (or -1) constrained *pointwise* only (email[g_last_at] == '@' ...), which
 * is all the libc models below need (A3: strrchr/strchr return the last/first occurrence).
 */
#ifndef VERIF_EMAIL_H
#define VERIF_EMAIL_H
#include <stddef.h>
#include <stdbool.h>
#include <stdlib.h>
#include <eav.h>
#include <eav/auto_tld.h>

size_t g_len;
const char *g_email;
long g_last_at;        /* index of the last '@', -1 if none */
long g_first_at;       /* index of the first '@', -1 if none (only needed if the code asks for it: strchr/strcspn/memchr) */
long g_last_rb;        /* index of the last ']' at or after the domain start, -1 if none */
long g_first_colon;    /* index of the first ':' after the opening bracket, -1 if none */
long g_last_dot;       /* index of the last '.' in the domain, -1 if none */
#define A   g_last_at
#define DOM (g_last_at + 1)        /* index of the first domain byte / of the opening bracket */

/* ---- records of callee invocations */
int rec_local_calls, rec_local_rc;  const char *rec_local_start, *rec_local_end;
int rec_dom_calls, rec_dom_rc;      const char *rec_dom_start, *rec_dom_end;
int rec_sp_calls, rec_sp_rc;        const char *rec_sp_start, *rec_sp_end;
int rec_tld_calls, rec_tld_rc;      const char *rec_tld_start, *rec_tld_end;
int rec_ip_calls, rec_ip_rc;        const char *rec_ip_start, *rec_ip_end;
int rec_ip6_calls, rec_ip6_rc;      const char *rec_ip6_start, *rec_ip6_end;
int rec_ip4_calls, rec_ip4_rc;      const char *rec_ip4_start, *rec_ip4_end;
int rec_u8_calls, rec_u8_rc, rec_u8_idn; const char *rec_u8_start, *rec_u8_end; bool rec_u8_tld; int *rec_u8_r;
int rec_strchr_colon_calls, rec_tagcmp_calls, g_tag_is_ipv6;
int rec_dup_calls; const char *rec_dup1_src, *rec_dup2_src; size_t rec_dup1_n, rec_dup2_n; char *rec_dup1_ret, *rec_dup2_ret;

#define REC_ASSIGNS(P) __CPROVER_assigns(rec_##P##_calls, rec_##P##_rc, rec_##P##_start, rec_##P##_end)
#define REC_ENSURES(P) __CPROVER_ensures(rec_##P##_calls == __CPROVER_old(rec_##P##_calls) + 1 && rec_##P##_start == start && \
        rec_##P##_end == end && rec_##P##_rc == __CPROVER_return_value)

/* validators of the local part: result 0 or a negative local-part code (proved in the C02/C03 jobs) */
#define LOCAL_CONTRACT REC_ASSIGNS(local) REC_ENSURES(local) \
        __CPROVER_ensures(__CPROVER_return_value <= 0 && __CPROVER_return_value > -EEAV_MAX)
/* a validator of another mode must never be called: its precondition is false */
#define NEVER_CALLED __CPROVER_requires(0) __CPROVER_assigns() __CPROVER_ensures(1)

#ifndef EMAIL_MODE
#error "define EMAIL_MODE (822, 5321, 5322, 6531)"
#endif
#if EMAIL_MODE == 822
int is_822_local(const char *start, const char *end) LOCAL_CONTRACT;
#else
int is_822_local(const char *start, const char *end) NEVER_CALLED;
#endif
#if EMAIL_MODE == 5321
int is_5321_local(const char *start, const char *end) LOCAL_CONTRACT;
#else
int is_5321_local(const char *start, const char *end) NEVER_CALLED;
#endif
#if EMAIL_MODE == 5322
int is_5322_local(const char *start, const char *end) LOCAL_CONTRACT;
#else
int is_5322_local(const char *start, const char *end) NEVER_CALLED;
#endif
#if EMAIL_MODE == 6531
int is_6531_local(const char *start, const char *end) LOCAL_CONTRACT;
#else
int is_6531_local(const char *start, const char *end) NEVER_CALLED;
#endif

int is_ascii_domain(const char *start, const char *end)
#if EMAIL_MODE == 6531
NEVER_CALLED;
#else
REC_ASSIGNS(dom) REC_ENSURES(dom) __CPROVER_ensures(__CPROVER_return_value <= 0 && __CPROVER_return_value > -EEAV_MAX);
#endif
int is_special_domain(const char *start, const char *end)
#if EMAIL_MODE == 6531
NEVER_CALLED;
#else
REC_ASSIGNS(sp) REC_ENSURES(sp) __CPROVER_ensures(__CPROVER_return_value == 0 || __CPROVER_return_value == 1);
#endif
/* is_tld: a class of the table (1..9, proved in the C07/C11 jobs) or -EEAV_TLD_INVALID */
int is_tld(const char *start, const char *end)
#if EMAIL_MODE == 6531
NEVER_CALLED;
#else
REC_ASSIGNS(tld) REC_ENSURES(tld) __CPROVER_ensures(__CPROVER_return_value == -EEAV_TLD_INVALID || (__CPROVER_return_value >= TLD_TYPE_NOT_ASSIGNED && __CPROVER_return_value <= TLD_TYPE_RETIRED));
#endif
int is_ipaddr(const char *start, const char *end)
REC_ASSIGNS(ip) REC_ENSURES(ip) __CPROVER_ensures(__CPROVER_return_value == 0 || __CPROVER_return_value == 1);
int is_ipv6(const char *start, const char *end)
REC_ASSIGNS(ip6) REC_ENSURES(ip6) __CPROVER_ensures(__CPROVER_return_value == 0 || __CPROVER_return_value == 1);
int is_ipv4(const char *start, const char *end)
REC_ASSIGNS(ip4) REC_ENSURES(ip4) __CPROVER_ensures(__CPROVER_return_value == 0 || __CPROVER_return_value == 1);

#if EMAIL_MODE == 6531
#ifdef HAVE_IDNKIT
idn_resconf_t rec_u8_ctx; idn_action_t rec_u8_actions;
int is_utf8_domain(idn_resconf_t ctx, idn_action_t actions, idn_result_t *r, const char *start, const char *end, bool tld_check)
__CPROVER_assigns(rec_u8_ctx, rec_u8_actions)
__CPROVER_ensures(rec_u8_ctx == ctx && rec_u8_actions == actions)
#else
int is_utf8_domain(int *r, const char *start, const char *end, bool tld_check)
#endif
__CPROVER_assigns(rec_u8_calls, rec_u8_rc, rec_u8_start, rec_u8_end, rec_u8_tld, rec_u8_r, *r)
__CPROVER_ensures(rec_u8_calls == __CPROVER_old(rec_u8_calls) + 1 && rec_u8_start == start && rec_u8_end == end && rec_u8_tld == tld_check && rec_u8_r == r)
__CPROVER_ensures(rec_u8_rc == __CPROVER_return_value && *r == rec_u8_idn)
/* proved in the is_utf8_domain jobs: a class, 0, or a negative code; a class only with tld_check on */
__CPROVER_ensures(__CPROVER_return_value > -EEAV_MAX && __CPROVER_return_value < TLD_TYPE_MAX && (tld_check || __CPROVER_return_value <= 0))
;
#endif

/* ---- A3: libc models on the ghost-described string (pointers are computed from the argument) */
char *strrchr(const char *s, int c)
{
    if (c == '@') {
        __CPROVER_assert(s == g_email, "strrchr('@') is applied to the whole address");
        return g_last_at < 0 ? (char *)0 : (char *)s + g_last_at;
    }
    if (c == ']') {
        __CPROVER_assert(g_last_at >= 0 && s == g_email + DOM, "strrchr(']') is applied to the domain (from the opening bracket)");
        return g_last_rb < 0 ? (char *)0 : (char *)s + (g_last_rb - DOM);
    }
    __CPROVER_assert(c == '.' && g_last_at >= 0 && s == g_email + DOM, "strrchr('.') is applied to the whole domain");
    return g_last_dot < 0 ? (char *)0 : (char *)s + (g_last_dot - DOM);
}
/* the first '@' -- the library itself never asks for it (it splits at the last one); modelled so that a change that
   does is judged by the postconditions and not by a missing model */
size_t strcspn(const char *s, const char *reject)
{
    __CPROVER_assert(s == g_email && reject[0] == '@' && reject[1] == 0, "strcspn is modelled for (address, \"@\") only");
    return g_first_at < 0 ? g_len : (size_t)g_first_at;
}
void *memchr(const void *s, int c, size_t n)
{
    if (c == ':') {   /* first ':' within the n bytes after the opening bracket */
        __CPROVER_assert(g_last_at >= 0 && s == (const void *)(g_email + DOM + 1) && (long)n <= (long)g_len - (DOM + 1), "memchr(':') is modelled on the bytes after the opening bracket only");
        rec_strchr_colon_calls++;
        return (g_first_colon >= 0 && g_first_colon < DOM + 1 + (long)n) ? (void *)((char *)s + (g_first_colon - (DOM + 1))) : (void *)0;
    }
    __CPROVER_assert(s == (const void *)g_email && c == '@' && n == g_len, "memchr is modelled for (address, '@', length) and (literal content, ':', n) only");
    return g_first_at < 0 ? (void *)0 : (void *)((char *)s + g_first_at);
}
char *strchr(const char *s, int c)
{
    if (c == '@') {
        __CPROVER_assert(s == g_email, "strchr('@') is modelled on the whole address only");
        return g_first_at < 0 ? (char *)0 : (char *)s + g_first_at;
    }
    __CPROVER_assert(c == ':' && g_last_at >= 0 && s == g_email + DOM + 1, "strchr is only used to find the first ':' after the opening bracket");
    rec_strchr_colon_calls++;
    return g_first_colon < 0 ? (char *)0 : (char *)s + (g_first_colon - (DOM + 1));
}
/* A6 (oracle): the tag comparison; asserts which operands it is given, answers from the ghost g_tag_is_ipv6 */
int strncasecmp(const char *a, const char *b, size_t n)
{
    __CPROVER_assert(g_last_at >= 0 && a == g_email + DOM + 1 && n == 4, "tag comparison: the four bytes after the opening bracket");
    __CPROVER_assert(b[0] == 'I' && b[1] == 'P' && b[2] == 'v' && b[3] == '6', "tag comparison: against \"IPv6\"");
    rec_tagcmp_calls++;
    return g_tag_is_ipv6 ? 0 : 1;
}
#ifdef EAV_EXTRA
char *strndup(const char *s, size_t n)
{
    char *r = malloc(1);
    __CPROVER_assume(r != NULL);
    rec_dup_calls++;
    if (rec_dup_calls == 1) { rec_dup1_src = s; rec_dup1_n = n; rec_dup1_ret = r; }
    else { rec_dup2_src = s; rec_dup2_n = n; rec_dup2_ret = r; }
    return r;
}
#endif

/* ---- the contract */
#define RES (__CPROVER_return_value)
#define NO_FLAGS (!RES->is_ipv4 && !RES->is_ipv6 && !RES->is_domain)
#define NO_DOMAIN_CALLS (rec_dom_calls == 0 && rec_sp_calls == 0 && rec_tld_calls == 0 && rec_ip_calls == 0 && rec_ip6_calls == 0 && rec_ip4_calls == 0 && rec_u8_calls == 0)
#define HAS_AT   (g_len > 0 && A >= 0 && A < (long)g_len - 1)
#define SPLIT_OK (HAS_AT && A <= 64)
#define LOCAL_OK (SPLIT_OK && rec_local_rc == 0)
#define IS_LITERAL (email[DOM] == '[')
#ifdef EAV_EXTRA
#define EXTRA_NULL (RES->lpart == NULL && RES->domain == NULL)
#else
#define EXTRA_NULL 1
#endif

#define EMAIL_REQUIRES \
__CPROVER_requires(length == g_len && g_len <= ((size_t)1 << 40) && __CPROVER_is_fresh(email, g_len + 1) && email[g_len] == 0 && g_email == email) \
__CPROVER_requires(g_last_at >= -1 && g_last_at < (long)g_len && (g_last_at >= 0 ==> email[g_last_at] == '@')) \
__CPROVER_requires(g_first_at >= -1 && (g_last_at < 0 ? g_first_at == -1 : (g_first_at >= 0 && g_first_at <= g_last_at && email[g_first_at] == '@'))) \
__CPROVER_requires(g_last_rb >= -1 && g_last_rb < (long)g_len && (g_last_rb >= 0 ==> (g_last_rb > g_last_at && email[g_last_rb] == ']'))) \
__CPROVER_requires(g_first_colon >= -1 && g_first_colon < (long)g_len && (g_first_colon >= 0 ==> (g_first_colon > g_last_at + 1 && email[g_first_colon] == ':'))) \
__CPROVER_requires(g_last_dot >= -1 && g_last_dot < (long)g_len && (g_last_dot >= 0 ==> (g_last_dot > g_last_at && email[g_last_dot] == '.'))) \
/* facts that hold of the real strrchr/strchr results because they are the last / first occurrence */ \
__CPROVER_requires((g_last_rb >= 0 && g_first_colon >= 0 && g_last_rb == (long)g_len - 1) ==> g_first_colon < g_last_rb) \
__CPROVER_requires(rec_local_calls == 0 && rec_dom_calls == 0 && rec_sp_calls == 0 && rec_tld_calls == 0 && rec_ip_calls == 0 && rec_ip6_calls == 0 && rec_ip4_calls == 0 && rec_u8_calls == 0 && rec_dup_calls == 0 && rec_strchr_colon_calls == 0 && rec_tagcmp_calls == 0)

/* the proof is split by input class into two jobs whose preconditions together cover every input */
#if defined(PATH_LITERAL)
#define PATH_REQUIRES __CPROVER_requires(g_len > 0 && g_last_at >= 0 && g_last_at < (long)g_len - 1 && email[g_last_at + 1] == '[')
#elif defined(PATH_HOST)
#define PATH_REQUIRES __CPROVER_requires(!(g_len > 0 && g_last_at >= 0 && g_last_at < (long)g_len - 1 && email[g_last_at + 1] == '['))
#else
#define PATH_REQUIRES
#endif

#define EMAIL_ASSIGNS \
__CPROVER_assigns(rec_local_calls, rec_local_rc, rec_local_start, rec_local_end, rec_dom_calls, rec_dom_rc, rec_dom_start, rec_dom_end) \
__CPROVER_assigns(rec_sp_calls, rec_sp_rc, rec_sp_start, rec_sp_end, rec_tld_calls, rec_tld_rc, rec_tld_start, rec_tld_end) \
__CPROVER_assigns(rec_ip_calls, rec_ip_rc, rec_ip_start, rec_ip_end, rec_ip6_calls, rec_ip6_rc, rec_ip6_start, rec_ip6_end, rec_ip4_calls, rec_ip4_rc, rec_ip4_start, rec_ip4_end) \
__CPROVER_assigns(rec_u8_calls, rec_u8_rc, rec_u8_start, rec_u8_end, rec_u8_tld, rec_u8_r, rec_strchr_colon_calls, rec_tagcmp_calls) \
__CPROVER_assigns(rec_dup_calls, rec_dup1_src, rec_dup2_src, rec_dup1_n, rec_dup2_n, rec_dup1_ret, rec_dup2_ret)

/* C01: the basic split, common to all four modes */
#define EMAIL_ENSURES_SPLIT \
__CPROVER_ensures(__CPROVER_is_fresh(RES, sizeof(eav_result_t))) \
/* C06/C08 callers: the result code is 0, a negative error code or a TLD class */ \
__CPROVER_ensures(RES->rc > -EEAV_MAX && RES->rc < TLD_TYPE_MAX) \
/* C16: at most one flag */ \
__CPROVER_ensures((int)RES->is_ipv4 + (int)RES->is_ipv6 + (int)RES->is_domain <= 1) \
__CPROVER_ensures(g_len == 0 ==> (RES->rc == -EEAV_EMAIL_EMPTY && rec_local_calls == 0 && NO_DOMAIN_CALLS && NO_FLAGS && EXTRA_NULL)) \
__CPROVER_ensures((g_len > 0 && !HAS_AT) ==> (RES->rc == -EEAV_DOMAIN_EMPTY && rec_local_calls == 0 && NO_DOMAIN_CALLS && NO_FLAGS && EXTRA_NULL)) \
__CPROVER_ensures((HAS_AT && A > 64) ==> (RES->rc == -EEAV_LPART_TOO_LONG && rec_local_calls == 0 && NO_DOMAIN_CALLS && NO_FLAGS && EXTRA_NULL)) \
/* exactly the local-part validator of this mode runs, once, on [email, email + A) */ \
__CPROVER_ensures(SPLIT_OK ==> (rec_local_calls == 1 && rec_local_start == email && rec_local_end == email + A)) \
__CPROVER_ensures((SPLIT_OK && rec_local_rc != 0) ==> (RES->rc == rec_local_rc && NO_DOMAIN_CALLS && NO_FLAGS && EXTRA_NULL))

/* C05 / C16: address literals, common to all four modes (tld_check plays no role: C08) */
#define LIT (LOCAL_OK && IS_LITERAL)
#define LIT_SHAPE_OK (LIT && (long)g_len - DOM > 8 && g_last_rb >= 0 && g_last_rb == (long)g_len - 1)
#define LIT_DIGIT ((email[DOM + 1] >= '0' && email[DOM + 1] <= '9'))
#define EMAIL_ENSURES_LITERAL \
__CPROVER_ensures(LIT ==> (rec_dom_calls == 0 && rec_sp_calls == 0 && rec_tld_calls == 0 && rec_u8_calls == 0 && !RES->is_domain && RES->rc <= 0)) \
__CPROVER_ensures((LIT && (long)g_len - DOM <= 8) ==> (RES->rc == -EEAV_IPADDR_INVALID && NO_FLAGS)) \
__CPROVER_ensures((LIT && (long)g_len - DOM > 8 && g_last_rb < 0) ==> (RES->rc == -EEAV_IPADDR_BRACKET_UNPAIR && NO_FLAGS)) \
/* nothing may follow the closing bracket */ \
__CPROVER_ensures((LIT && (long)g_len - DOM > 8 && g_last_rb >= 0 && g_last_rb != (long)g_len - 1) ==> (RES->rc == -EEAV_IPADDR_INVALID && NO_FLAGS)) \
/* first byte a digit: IPv4, or the tolerated untagged IPv6 spelling; family = whether the content has a ':' */ \
__CPROVER_ensures((LIT_SHAPE_OK && LIT_DIGIT) ==> (rec_ip_calls == 1 && rec_ip_start == email + DOM + 1 && rec_ip_end == email + g_last_rb && rec_ip6_calls == 0 && \
        (rec_ip_rc == 0 ? (RES->rc == -EEAV_IPADDR_INVALID && NO_FLAGS) : (RES->rc == 0 && RES->is_ipv4 == (g_first_colon < 0) && RES->is_ipv6 == (g_first_colon >= 0))))) \
/* otherwise only the tag "IPv6:" followed by an IPv6 address */ \
__CPROVER_ensures((LIT_SHAPE_OK && !LIT_DIGIT) ==> (rec_ip_calls == 0 && \
        ((g_first_colon == DOM + 5 && g_tag_is_ipv6) \
          ? (rec_tagcmp_calls == 1 && rec_ip6_calls == 1 && rec_ip6_start == email + g_first_colon + 1 && rec_ip6_end == email + g_last_rb && \
             (rec_ip6_rc == 0 ? (RES->rc == -EEAV_IPADDR_INVALID && NO_FLAGS) : (RES->rc == 0 && RES->is_ipv6 && !RES->is_ipv4))) \
          : (RES->rc == -EEAV_IPADDR_INVALID && NO_FLAGS && rec_ip6_calls == 0))))

/* C01 / C07 / C08 / C16: host-name path of the three ASCII modes */
#define HOST (LOCAL_OK && !IS_LITERAL)
#define HOST_OK (HOST && rec_dom_rc == 0)
#define EMAIL_ENSURES_HOST_ASCII \
__CPROVER_ensures(HOST ==> (rec_dom_calls == 1 && rec_dom_start == email + DOM && rec_dom_end == email + g_len && rec_ip_calls == 0 && rec_ip6_calls == 0 && rec_ip4_calls == 0 && !RES->is_ipv4 && !RES->is_ipv6)) \
__CPROVER_ensures((HOST && rec_dom_rc != 0) ==> (RES->rc == rec_dom_rc && rec_sp_calls == 0 && rec_tld_calls == 0 && NO_FLAGS && EXTRA_NULL)) \
__CPROVER_ensures(HOST_OK ==> RES->is_domain) \
/* C08: with TLD checking off neither the TLD nor the FQDN requirement is consulted */ \
__CPROVER_ensures((HOST_OK && !tld_check) ==> (RES->rc == 0 && rec_sp_calls == 0 && rec_tld_calls == 0)) \
/* C07/C09: reserved test first, on the whole domain */ \
__CPROVER_ensures((HOST_OK && tld_check) ==> (rec_sp_calls == 1 && rec_sp_start == email + DOM && rec_sp_end == email + g_len)) \
__CPROVER_ensures((HOST_OK && tld_check && rec_sp_rc != 0) ==> (RES->rc == TLD_TYPE_SPECIAL && rec_tld_calls == 0)) \
__CPROVER_ensures((HOST_OK && tld_check && rec_sp_rc == 0 && g_last_dot < 0) ==> (RES->rc == -EEAV_DOMAIN_NOT_FQDN && rec_tld_calls == 0)) \
/* the class is that of the *last* label, whole */ \
__CPROVER_ensures((HOST_OK && tld_check && rec_sp_rc == 0 && g_last_dot >= 0) ==> (rec_tld_calls == 1 && rec_tld_start == email + g_last_dot + 1 && rec_tld_end == email + g_len && RES->rc == rec_tld_rc))

#ifdef EAV_EXTRA
#define EMAIL_ENSURES_EXTRA \
__CPROVER_ensures((RES->is_domain && RES->rc >= 0) ==> (rec_dup_calls == 2 && RES->lpart == rec_dup1_ret && rec_dup1_src == email && rec_dup1_n == (size_t)A && \
        RES->domain == rec_dup2_ret && rec_dup2_src == email + DOM && rec_dup2_n == g_len - (size_t)DOM)) \
__CPROVER_ensures(((RES->is_ipv4 || RES->is_ipv6) && RES->rc == 0) ==> (rec_dup_calls == 2 && RES->lpart == rec_dup1_ret && rec_dup1_src == email && rec_dup1_n == (size_t)A && \
        RES->domain == rec_dup2_ret && rec_dup2_src == email + DOM + 1 && rec_dup2_n == (size_t)(g_last_rb - DOM - 1))) \
__CPROVER_ensures(NO_FLAGS ==> EXTRA_NULL)
#else
#define EMAIL_ENSURES_EXTRA
#endif

#define EMAIL_CONTRACT_ASCII EMAIL_REQUIRES PATH_REQUIRES EMAIL_ASSIGNS EMAIL_ENSURES_SPLIT EMAIL_ENSURES_LITERAL EMAIL_ENSURES_HOST_ASCII EMAIL_ENSURES_EXTRA

/* mode 6531: the host-name path goes through is_utf8_domain (C10, C19) */
#define EMAIL_ENSURES_HOST_6531 \
__CPROVER_ensures(HOST ==> (rec_u8_calls == 1 && rec_u8_start == email + DOM && rec_u8_end == email + g_len && rec_u8_tld == tld_check && rec_u8_r == &RES->idn_rc && \
        rec_ip_calls == 0 && rec_ip6_calls == 0 && rec_ip4_calls == 0 && !RES->is_ipv4 && !RES->is_ipv6 && RES->rc == rec_u8_rc && RES->idn_rc == rec_u8_idn && RES->is_domain == (rec_u8_rc >= 0))) \
__CPROVER_ensures((HOST && rec_u8_rc < 0) ==> EXTRA_NULL)
#define EMAIL_CONTRACT_6531 EMAIL_REQUIRES PATH_REQUIRES EMAIL_ASSIGNS EMAIL_ENSURES_SPLIT EMAIL_ENSURES_LITERAL EMAIL_ENSURES_HOST_6531 EMAIL_ENSURES_EXTRA

#endif
