/* Native replay oracle: runs the REAL library function (built from /repo's working tree, guard off) and
 * the specification (the same spec/*.h macros the contracts use, evaluated over the whole input) on one
 * concrete input and reports whether they disagree.
 *
 *   oracle <kind> <hex-bytes> [args...]      exit 0 agree, 1 disagree, 2 usage
 *   oracle search <kind> <maxlen> <budget>   enumerate / sample inputs, print the first disagreement
 *
 * kinds: local822 local5321 local5322 local6531 host ipv4 ipv6 special tld email822 email5321 email5322
 *        policy (args: allow_tld rc)
 * Compiled natively with gcc; with -DVERIF_FINDER the same file is the CBMC bounded-search harness.
 */
#include <stdio.h>
#include <stdlib.h>
#include <string.h>
#include <stdbool.h>
#include <eav.h>
#include <eav/auto_tld.h>
#include <spec_local.h>
#include <spec_utf8.h>
#include <spec_host.h>
#include <spec_ip.h>
#include <spec_tld.h>
#include <idn2.h>

typedef unsigned char u8;

/* ------------------------------------------------------------------ specifications over whole inputs */
static int spec_local_bytes(int mode, const u8 *s, size_t n)
{
    int g = L_START;
    for (size_t i = 0; i < n; i++) {
        int c = s[i];
        g = mode == 822 ? SPEC822_STEP(g, c) : mode == 5321 ? SPEC5321_STEP(g, c) : SPEC5322_STEP(g, c);
    }
    return n > 0 && L_ACC(g);
}
static int spec_local_6531(const u8 *s, size_t n)
{
    int g = L_START; size_t i = 0;
    while (i < n) {
        int b0 = s[i], b1 = i + 1 < n ? s[i + 1] : -1, b2 = i + 2 < n ? s[i + 2] : -1, b3 = i + 3 < n ? s[i + 3] : -1;
        int k = U_WFLEN(b0, b1, b2, b3);
        if (k == 0) return 0;                       /* not well-formed UTF-8 */
        int cp = U_CP(b0, b1, b2, b3);
        g = SPEC6531_STEP(g, cp);
        i += (size_t)k;
    }
    return n > 0 && L_ACC(g);
}
static int spec_host(const u8 *s, size_t n)
{
    if (n == 0) return 0;
    size_t eff = H_EFF(n, s[n - 1]);
    if (eff > H_MAXNAME) return 0;
    int ph = H_START, run = 0, nn = 0;
    for (size_t i = 0; i < eff; i++) {
        int c = s[i];
        int ph2 = H_NEXT_PH(ph, run, c), run2 = H_NEXT_RUN(run, c), nn2 = H_NEXT_NN(nn, c);
        ph = ph2; run = run2; nn = nn2;
    }
    return H_ACC(ph, nn);
}
/* returns 1 accept, 0 reject, 2 accept-or-reject both allowed (first octet zero) */
static int spec_ipv4(const u8 *s, size_t n)
{
    int ph = Q_START, cnt = 0, val = 0, first = -1;
    for (size_t i = 0; i < n; i++) {
        int c = s[i];
        if (c == '.' && ph == Q_DIG && cnt == 1) first = val;
        int ph2 = Q_NEXT_PH(ph, cnt, val, c), cnt2 = Q_NEXT_CNT(ph, cnt, c), val2 = Q_NEXT_VAL(ph, val, c);
        ph = ph2; cnt = cnt2; val = val2;
    }
    if (!Q_ACC(ph, cnt)) return 0;
    return first != 0 ? 1 : 2;
}
static int spec_ipv6(const u8 *s, size_t n)
{
    int ph = V_START, groups = 0, hex = 0, dc = 0; size_t grp = 0;
    for (size_t i = 0; i < n; i++) {
        int c = s[i];
        if (c == '.') {       /* dotted-quad tail: the current group is its first octet */
            if (!V_ACC_V4TAIL(ph, groups, dc)) return 0;
            int r = spec_ipv4(s + grp, n - grp);
            /* "::" with five groups before the quad: RFC 4291 yes, RFC 5321 (IPv6v4-comp: at most four) no: both outcomes allowed */
            return (r == 1 && !V_ACC_V4TAIL_5321(ph, groups, dc)) ? 2 : r;
        }
        if (V_IS_HEX(c) && ph != V_HEX) grp = i;
        int ph2 = V_NEXT_PH(ph, groups, hex, dc, c), g2 = V_NEXT_GROUPS(ph, groups, c), h2 = V_NEXT_HEX(ph, hex, c), d2 = V_NEXT_DC(ph, dc, c);
        ph = ph2; groups = g2; hex = h2; dc = d2;
    }
    if (!V_ACC(ph, groups, dc)) return 0;
    return V_ACC_5321(ph, groups, dc) ? 1 : 2;   /* 7 groups + '::' : RFC 4291 yes, RFC 5321 grammar no: both outcomes allowed */
}
static int lower(int c) { return (c >= 'A' && c <= 'Z') ? c + 32 : c; }
static int label_eq(const u8 *s, size_t n, const char *w)
{
    size_t m = strlen(w);
    if (n != m) return 0;
    for (size_t i = 0; i < n; i++) if (lower(s[i]) != w[i]) return 0;
    return 1;
}
static int spec_special(const u8 *s, size_t n)
{
    /* last label and the one before it */
    size_t a = n; while (a > 0 && s[a - 1] != '.') a--;
    const u8 *last = s + a; size_t ll = n - a;
    static const char *res[] = { "test", "example", "invalid", "localhost", "onion" };
    for (int k = 0; k < 5; k++) if (label_eq(last, ll, res[k])) return 1;
    if (a >= 1) {
        size_t e = a - 1, b = e; while (b > 0 && s[b - 1] != '.') b--;
        if (label_eq(s + b, e - b, "example") && (label_eq(last, ll, "com") || label_eq(last, ll, "net") || label_eq(last, ll, "org"))) return 1;
    }
    return 0;
}
static int spec_tld_class(const u8 *s, size_t n)   /* class or -EEAV_TLD_INVALID */
{
    for (int k = 0; k < SPEC_NTLD; k++) if (label_eq(s, n, spec_tld[k].name)) return spec_tld[k].cls;
    return -EEAV_TLD_INVALID;
}

/* ------------------------------------------------------------------ the real code */
static int code_local(int mode, const u8 *s, size_t n)
{
    /* as at the call sites: the byte at `end` is '@', a NUL-terminated string follows */
    char *buf = malloc(n + 4); memcpy(buf, s, n); buf[n] = '@'; buf[n + 1] = 'x'; buf[n + 2] = 0;
    int r = mode == 822 ? is_822_local(buf, buf + n) : mode == 5321 ? is_5321_local(buf, buf + n) : mode == 5322 ? is_5322_local(buf, buf + n) : is_6531_local(buf, buf + n);
    free(buf); return r;
}
static int code_z(int (*f)(const char *, const char *), const u8 *s, size_t n, int term)
{
    char *buf = malloc(n + 2); memcpy(buf, s, n); buf[n] = (char)term; buf[n + 1] = 0;
    int r = f(buf, buf + n); free(buf); return r;
}

static int has_nul(const u8 *s, size_t n) { return memchr(s, 0, n) != NULL; }

/* e-mail level specification for the ASCII modes (composition of the above); fills exp_* */
struct exp { int accept; int cls; int v4, v6, dom; int open; };
static struct exp spec_email(int mode, const u8 *s, size_t n, int tld_check)
{
    struct exp e = { 0, 0, 0, 0, 0, 0 };
    if (n == 0) return e;
    long at = -1; for (size_t i = 0; i < n; i++) if (s[i] == '@') at = (long)i;
    if (at < 0 || (size_t)at == n - 1 || at > 64 || at == 0) return e;
    if (!spec_local_bytes(mode, s, (size_t)at)) return e;
    const u8 *d = s + at + 1; size_t dn = n - (size_t)at - 1;
    if (d[0] == '[') {
        if (dn < 3 || d[dn - 1] != ']') return e;
        const u8 *a = d + 1; size_t an = dn - 2; int r;
        if (memchr(a, ']', an)) { /* an inner ']' : content is not an address */ return e; }
        if (an >= 5 && lower(a[0]) == 'i' && lower(a[1]) == 'p' && lower(a[2]) == 'v' && a[3] == '6' && a[4] == ':') {
            r = spec_ipv6(a + 5, an - 5); e.v6 = 1;
            if (!(a[0] == 'I' && a[1] == 'P' && a[2] == 'v')) { if (r) r = 2; }   /* tag case: left open */
        } else if (memchr(a, ':', an)) { r = spec_ipv6(a, an) ? 2 : 0; e.v6 = 1; }   /* untagged: tolerated, not required */
        else { r = spec_ipv4(a, an); e.v4 = 1; }
        if (r == 0) { e.v4 = e.v6 = 0; return e; }
        e.accept = 1; e.open = (r == 2); return e;
    }
    if (!spec_host(d, dn)) return e;
    e.dom = 1;
    if (!tld_check) { e.accept = 1; return e; }
    if (d[dn - 1] == '.') { e.open = 1; e.accept = 1; return e; }           /* root dot: C07/C09 do not speak */
    if (spec_special(d, dn)) { e.accept = 1; e.cls = TLD_TYPE_SPECIAL; return e; }
    long dot = -1; for (size_t i = 0; i < dn; i++) if (d[i] == '.') dot = (long)i;
    if (dot < 0) return e;                                                  /* not FQDN */
    int c = spec_tld_class(d + dot + 1, dn - (size_t)dot - 1);
    if (c < 0) return e;
    e.accept = 1; e.cls = c; return e;
}

/* mode 6531: the local part by the 6531 automaton; the host name is first converted by the IDN library itself (assumed
   contract A7: the oracle takes the library's answer as given) and the converted name is judged like an ASCII host name */
static struct exp spec_email_6531(const u8 *s, size_t n, int tld_check)
{
    struct exp e = { 0, 0, 0, 0, 0, 0 };
    if (n == 0) return e;
    long at = -1; for (size_t i = 0; i < n; i++) if (s[i] == '@') at = (long)i;
    if (at < 0 || (size_t)at == n - 1 || at > 64 || at == 0) return e;
    if (!spec_local_6531(s, (size_t)at)) return e;
    const u8 *d = s + at + 1; size_t dn = n - (size_t)at - 1;
    if (d[0] == '[') {               /* literals: as in the ASCII modes */
        u8 tmp[600]; if (n >= sizeof tmp) { e.open = 1; return e; }
        memcpy(tmp, "a", 1); memcpy(tmp + 1, s + at, n - (size_t)at);      /* "a@[...]" judged by the ASCII specification */
        return spec_email(5321, tmp, n - (size_t)at + 1, tld_check);
    }
    char *in = malloc(dn + 1); memcpy(in, d, dn); in[dn] = 0;
    char *out = NULL; int rc = idn2_to_ascii_8z(in, &out, IDN2_NONTRANSITIONAL);
    free(in);
    if (rc != IDN2_OK) { if (out) free(out); return e; }
    size_t on = strlen(out);
    u8 tmp[1200];
    if (on + 3 >= sizeof tmp) { free(out); e.open = 1; return e; }
    memcpy(tmp, "a@", 2); memcpy(tmp + 2, out, on); free(out);
    return spec_email(5321, tmp, on + 2, tld_check);
}

static int hexval(int c) { return c >= '0' && c <= '9' ? c - '0' : c >= 'a' && c <= 'f' ? c - 'a' + 10 : c >= 'A' && c <= 'F' ? c - 'A' + 10 : -1; }

static eav_result_t *cb_rc; static int cb_rc_val;
static eav_result_t *fake_cb(const char *e, size_t n, bool t) { (void)e; (void)n; (void)t; eav_result_t *r = calloc(1, sizeof *r); r->rc = cb_rc_val; return r; }

/* returns 1 if code and specification disagree on this input */
static int check(const char *kind, const u8 *s, size_t n, char **args, int nargs, int verbose)
{
    int code = 0, spec = 0, dis = 0;
    if (has_nul(s, n) && strcmp(kind, "policy")) { if (verbose) printf("{\"skipped\":\"input contains NUL (outside the properties' domain)\"}\n"); return 0; }
    if (!strncmp(kind, "local", 5)) {
        int mode = atoi(kind + 5);
        code = code_local(mode, s, n);
        spec = mode == 6531 ? spec_local_6531(s, n) : spec_local_bytes(mode, s, n);
        dis = (code == 0) != (spec != 0);
#ifdef RFC6531_FOLLOW_RFC5322
        if (mode == 6531) {      /* option build (C17): pure ASCII is judged as mode 5322; ill-formed UTF-8 is never accepted; nothing else is claimed */
            int ascii = 1; for (size_t i = 0; i < n; i++) if (s[i] >= 0x80) ascii = 0;
            if (ascii) { spec = spec_local_bytes(5322, s, n); dis = (code == 0) != (spec != 0); }
            else { int wf = 1; size_t i = 0; while (i < n) { int k = U_WFLEN(s[i], i + 1 < n ? s[i + 1] : -1, i + 2 < n ? s[i + 2] : -1, i + 3 < n ? s[i + 3] : -1); if (!k) { wf = 0; break; } i += (size_t)k; }
                   spec = wf ? 2 : 0; dis = (!wf && code == 0); }
        }
#endif
    } else if (!strcmp(kind, "host")) {
        code = code_z(is_ascii_domain, s, n, 0); spec = spec_host(s, n); dis = (code == 0) != (spec != 0);
    } else if (!strcmp(kind, "ipv4")) {
        code = code_z(is_ipv4, s, n, ']'); spec = spec_ipv4(s, n); dis = spec == 2 ? 0 : ((code != 0) != (spec != 0));
    } else if (!strcmp(kind, "ipv6")) {
        code = code_z(is_ipv6, s, n, ']'); spec = spec_ipv6(s, n); dis = spec == 2 ? 0 : ((code != 0) != (spec != 0));
    } else if (!strcmp(kind, "special")) {
        if (n == 0 || s[n - 1] == '.' || !spec_host(s, n)) { if (verbose) printf("{\"skipped\":\"not a valid host name without root dot\"}\n"); return 0; }
        code = code_z(is_special_domain, s, n, 0); spec = spec_special(s, n); dis = (code != 0) != (spec != 0);
    } else if (!strcmp(kind, "tld")) {
        if (n == 0 || memchr(s, '.', n)) { if (verbose) printf("{\"skipped\":\"not a single label\"}\n"); return 0; }
        code = code_z(is_tld, s, n, 0); spec = spec_tld_class(s, n); dis = code != spec;
    } else if (!strncmp(kind, "email", 5)) {
        int mode = atoi(kind + 5); int tld = nargs > 0 ? atoi(args[0]) : 0;
        char *buf = malloc(n + 1); memcpy(buf, s, n); buf[n] = 0;
        eav_result_t *r = mode == 822 ? is_822_email(buf, n, tld) : mode == 5321 ? is_5321_email(buf, n, tld) : mode == 5322 ? is_5322_email(buf, n, tld) : is_6531_email(buf, n, tld);
        struct exp e = mode == 6531 ? spec_email_6531(s, n, tld) : spec_email(mode, s, n, tld);
        code = r->rc;
        int acc = r->rc >= 0;
        spec = e.accept ? (e.cls ? e.cls : 0) : -1;
        if (!e.open) {
            dis = acc != e.accept || (acc && r->rc != e.cls) || (acc && (r->is_ipv4 != e.v4 || r->is_ipv6 != e.v6 || r->is_domain != e.dom));
            if (!acc && !e.dom && (r->is_ipv4 || r->is_ipv6 || r->is_domain)) dis = 1;
        } else {
            dis = (r->is_ipv4 + r->is_ipv6 + r->is_domain > 1);
        }
        if ((int)r->is_ipv4 + (int)r->is_ipv6 + (int)r->is_domain > 1) dis = 1;
        if (verbose) printf("{\"flags\":[%d,%d,%d],\"expected_flags\":[%d,%d,%d],\"open\":%d}\n", r->is_ipv4, r->is_ipv6, r->is_domain, e.v4, e.v6, e.dom, e.open);
        eav_result_free(r); free(buf);
    } else if (!strcmp(kind, "policy")) {
        int allow = nargs > 0 ? (int)strtol(args[0], 0, 0) : 0; cb_rc_val = nargs > 1 ? atoi(args[1]) : 0;
        eav_t e; eav_init(&e); e.rfc = EAV_RFC_822; eav_setup(&e); e.ascii_cb = fake_cb; e.allow_tld = allow;
        code = eav_is_email(&e, "x", 1);
        spec = cb_rc_val == 0 ? 1 : cb_rc_val < 0 ? 0 : ((allow >> (cb_rc_val + 1)) & 1);
        int experr = cb_rc_val == 0 ? 0 : cb_rc_val < 0 ? -cb_rc_val : (spec ? 0 : EEAV_TLD_INVALID + cb_rc_val);
        dis = code != spec || e.errcode != experr;
        eav_free(&e);
    } else { fprintf(stderr, "unknown kind %s\n", kind); exit(2); }
    if (verbose) {
        printf("{\"kind\":\"%s\",\"len\":%zu,\"code\":%d,\"spec\":%d,\"disagree\":%s}\n", kind, n, code, spec, dis ? "true" : "false");
    }
    return dis;
}

/* small deterministic generator for the native search */
static unsigned long long rng = 88172645463325252ULL;
static unsigned rnd(void) { rng ^= rng << 13; rng ^= rng >> 7; rng ^= rng << 17; return (unsigned)(rng >> 11); }

/* search alphabets: tokens (byte strings), enumerated exhaustively in sequences of up to `maxlen` tokens */
static const char **alphabet(const char *kind, size_t *n)
{
    /* non-ASCII characters whose code point has a structural low byte (U+012E '.', U+0122 '"', U+015C '\\', U+0100 NUL, U+0140 '@'),
       a 3- and a 4-byte character, an overlong form, a surrogate, a stray continuation byte */
    static const char *loc[] = { "a", ".", "\"", "\\", " ", "\r\n ", "\r", "\n", "\t", "@", "(", "\x7f", "\x01", "\xc3\xa9", "\xc4\xae", "\xc4\xa2", "\xc5\x9c", "\xc4\x80",
                                 "\xe2\x82\xac", "\xf0\x9f\x98\x80", "\xc0\xaf", "\xed\xa0\x80", "\x80", "\xc3" };
    static const char *host[] = { "a", "1", "-", ".", "_", "A", "abcdefghijklmnopqrstuvwxyz0123456789abcdefghijklmnopqrstuvwxyz0123456789ab-xyzabcdefg", "$" };
    static const char *v4[] = { "0", "1", "25", "255", "256", ".", ":", "9", "a" };
    static const char *v6[] = { "0", "1", "a", "f", ":", "::", ".", "g", "1.2.3.4", "00001", "ffff", "1:2:3:4:5:6:7" };
    static const char *em[] = { "a", ".", "@", "[", "]", ":", "1", "\"", "IPv6:", "ipv6:", "x", "-", "--", "xn--", "1.2.3.4", "::1", "com", "example", "test", "b@", "\xc3\xa9" };
    static const char *gen[] = { "a", "b", "c", "d", "e", "l", "m", "n", "o", "p", "s", "t", "x", ".", "-", "0", "E", "X" };
#define RET(a) do { *n = sizeof(a) / sizeof(*(a)); return (a); } while (0)
    if (!strncmp(kind, "local", 5)) RET(loc);
    if (!strcmp(kind, "host")) RET(host);
    if (!strcmp(kind, "ipv4")) RET(v4);
    if (!strcmp(kind, "ipv6")) RET(v6);
    if (!strncmp(kind, "email", 5)) RET(em);
    RET(gen);
}

static void print_hex(const u8 *s, size_t n) { for (size_t i = 0; i < n; i++) printf("%02x", s[i]); }

int main(int argc, char **argv)
{
    if (argc >= 5 && !strcmp(argv[1], "search")) {
        const char *kind = argv[2]; size_t maxlen = (size_t)atoi(argv[3]); long budget = atol(argv[4]);
        char **args = argv + 5; int nargs = argc - 5;
        size_t an = 0; const char **al = alphabet(kind, &an);
        u8 buf[600];
        if (!strcmp(kind, "policy")) {      /* finite: all masks over bits 0..10 x all result codes */
            for (int rc = -EEAV_MAX + 1; rc < TLD_TYPE_MAX; rc++) for (int m = 0; m < 2048; m++) {
                char a0[32], a1[32]; char *aa[2] = { a0, a1 }; sprintf(a0, "%d", m); sprintf(a1, "%d", rc);
                if (check(kind, (const u8 *)"", 0, aa, 2, 0)) { printf("FOUND - %d %d\n", m, rc); return 1; }
            }
            printf("NOTFOUND\n"); return 0;
        }
        if (!strcmp(kind, "tld") || !strcmp(kind, "special") || !strncmp(kind, "email", 5)) {
            /* every table row: exact, upper case, every proper prefix, one-character extension; reserved words likewise */
            static const char *rw[] = { "test", "example", "invalid", "localhost", "onion", "example.com", "example.net", "example.org", "a.example.org", "mailbox.example", "abcdefg.test", "example.onion", "x.y.z.localhost" };
            size_t nrw = sizeof rw / sizeof *rw;
            for (size_t k = 0; k < (size_t)SPEC_NTLD + nrw; k++) {
                const char *w = k < (size_t)SPEC_NTLD ? spec_tld[k].name : rw[k - SPEC_NTLD]; size_t l = strlen(w);
                for (int variant = 0; variant < 4 + (int)l; variant++) {
                    size_t n = 0; const char *pre = !strncmp(kind, "email", 5) ? "u@d." : !strcmp(kind, "special") ? (k < (size_t)SPEC_NTLD ? "w." : "") : "";
                    if (!strcmp(kind, "special") && k >= (size_t)SPEC_NTLD && variant == 3) pre = "abcdefg.";
                    memcpy(buf, pre, strlen(pre)); n = strlen(pre);
                    if (variant < 4) { memcpy(buf + n, w, l); n += l; if (variant == 1) for (size_t i = n - l; i < n; i++) if (buf[i] >= 'a' && buf[i] <= 'z') buf[i] -= 32; if (variant == 2) buf[n++] = 'a'; }
                    else { size_t pl = (size_t)(variant - 4); if (pl == 0) continue; memcpy(buf + n, w, pl); n += pl; }
                    if (check(kind, buf, n, args, nargs, 0)) { printf("FOUND "); print_hex(buf, n); printf("\n"); return 1; }
                }
            }
        }
        if (!strcmp(kind, "ipv6") || !strncmp(kind, "email", 5)) {
            /* structured: every RFC 4291 / 5321 shape - a groups, optionally "::", b groups, optionally a dotted-quad tail -
               with group texts of 1..4 digits, one extra / one missing group around the legal counts included */
            static const char *grp[] = { "1", "ab", "0db8", "f" };
            for (int a = 0; a <= 8; a++) for (int b = 0; b <= 8; b++) for (int dc = 0; dc <= 1; dc++) for (int v4 = 0; v4 <= 1; v4++) for (int g = 0; g < 4; g++) {
                if (!dc && b) continue;                       /* without "::" there is only one run of groups */
                size_t n = 0; const char *pre = !strncmp(kind, "email", 5) ? "u@[IPv6:" : ""; memcpy(buf, pre, strlen(pre)); n = strlen(pre);
                for (int i = 0; i < a; i++) { if (i) buf[n++] = ':'; const char *w = grp[(g + i) % 4]; memcpy(buf + n, w, strlen(w)); n += strlen(w); }
                if (dc) { buf[n++] = ':'; buf[n++] = ':'; }
                for (int i = 0; i < b; i++) { if (i) buf[n++] = ':'; const char *w = grp[(g + i + 1) % 4]; memcpy(buf + n, w, strlen(w)); n += strlen(w); }
                if (v4) { if ((dc ? b : a) > 0) buf[n++] = ':'; memcpy(buf + n, "192.0.2.1", 9); n += 9; }
                if (!strncmp(kind, "email", 5)) buf[n++] = ']';
                if (check(kind, buf, n, args, nargs, 0)) { printf("FOUND "); print_hex(buf, n); printf("\n"); return 1; }
            }
        }
        /* exhaustive over short token sequences of the reduced alphabet, then random longer ones with structure */
        for (size_t len = 0; len <= maxlen && budget > 0; len++) {
            size_t idx[16] = { 0 };
            if (len > 12) break;
            for (;;) {
                size_t bn = 0;
                for (size_t i = 0; i < len; i++) { size_t l = strlen(al[idx[i]]); if (bn + l < sizeof buf) { memcpy(buf + bn, al[idx[i]], l); bn += l; } }
                if (--budget <= 0) break;
                if (check(kind, buf, bn, args, nargs, 0)) { printf("FOUND "); print_hex(buf, bn); printf("\n"); return 1; }
                size_t k = 0; while (k < len && ++idx[k] == an) idx[k++] = 0;
                if (k == len) break;
            }
        }
        static const char *words[] = { "example", "test", "invalid", "localhost", "onion", "com", "net", "org", "abcdefg", "xn--p1ai", "IPv6:", "[", "]", "@", ".", "..", "\"", "::", "1.2.3.4", "255", "256", "0", "ffff", "a", "-", "é", "\\", " ", "museum", "aero", "arpa", "zw", "aaa" };
        while (budget-- > 0) {
            size_t n = 0; unsigned parts = 1 + rnd() % 9;
            for (unsigned p = 0; p < parts && n < 500; p++) {
                unsigned r = rnd() % 10;
                if (r < 6) { const char *w = words[rnd() % (sizeof words / sizeof *words)]; size_t l = strlen(w); memcpy(buf + n, w, l); n += l; if (rnd() % 4 == 0) buf[n - 1] ^= 0x20; }
                else if (r < 8) { unsigned l = 1 + rnd() % 70; for (unsigned i = 0; i < l && n < 500; i++) buf[n++] = (u8)("abcxyz019-"[rnd() % 10]); }
                else { const char *w = al[rnd() % an]; size_t l = strlen(w); memcpy(buf + n, w, l); n += l; }
            }
            if (check(kind, buf, n, args, nargs, 0)) { printf("FOUND "); print_hex(buf, n); printf("\n"); return 1; }
        }
        printf("NOTFOUND\n");
        return 0;
    }
    if (argc < 3) { fprintf(stderr, "usage: oracle <kind> <hex> [args] | oracle search <kind> <maxlen> <budget> [args]\n"); return 2; }
    const char *hex = argv[2]; size_t hl = strlen(hex); size_t n = hl / 2;
    u8 *s = malloc(n + 1);
    for (size_t i = 0; i < n; i++) s[i] = (u8)(hexval(hex[2 * i]) * 16 + hexval(hex[2 * i + 1]));
    return check(argv[1], s, n, argv + 3, argc - 3, 1);
}
