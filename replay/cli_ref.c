/* Reference for property C20, written from the property text (not from bin/main.c): reads a file, and for every
   line prints what the eav tool has to print, as one JSON-free record per line on stdout:
       C                       comment line: no output expected
       P <clean> <hex-echo>    PASS record expected; clean=1: the echo must be exactly these bytes
       F <clean> <hex-echo> <hex-message>   FAIL record + message line expected
   Lines are what getline returns: up to and including '\n', the last one possibly without.  Trimming: terminator
   (LF or CRLF), one leading space, a C string ends at its first NUL, one trailing blank (space or tab).
   The verdict is the library's decision under default settings (eav_init + eav_setup, nothing else). */
#include <stdio.h>
#include <stdlib.h>
#include <string.h>
#include <eav.h>

static void hex(const char *s, size_t n) { if (!n) printf("-"); for (size_t i = 0; i < n; i++) printf("%02x", (unsigned char)s[i]); }

int main(int argc, char **argv)
{
    eav_t eav;
    eav_init(&eav);
    if (eav_setup(&eav) != EEAV_NO_ERROR) return 3;
    for (int a = 1; a < argc; a++) {          /* the caller passes the files in the order the tool processes them */
        FILE *f = fopen(argv[a], "rb"); if (!f) return 4;
        fseek(f, 0, SEEK_END); long sz = ftell(f); fseek(f, 0, SEEK_SET);
        char *buf = malloc((size_t)sz + 1); if (sz && fread(buf, 1, (size_t)sz, f) != (size_t)sz) return 5; fclose(f);
        long i = 0;
        while (i < sz) {
            long j = i; while (j < sz && buf[j] != '\n') j++;
            long end = (j < sz) ? j + 1 : j;                 /* [i, end) is the line as read */
            long n = end - i;
            if (n >= 2 && buf[end - 2] == '\r' && buf[end - 1] == '\n') n -= 2; else if (n >= 1 && buf[end - 1] == '\n') n -= 1;
            const char *t = buf + i;
            /* a C string ends at its first NUL */
            long k = 0; while (k < n && t[k] != 0) k++; n = k;
            if (n >= 1 && t[0] == '#') { printf("C\n"); i = end; continue; }
            if (n >= 1 && t[0] == ' ') { t++; n--; }
            if (n >= 1 && (t[n - 1] == ' ' || t[n - 1] == '\t')) n--;
            char *copy = malloc((size_t)n + 1); memcpy(copy, t, (size_t)n); copy[n] = 0;
            int ok = eav_is_email(&eav, copy, (size_t)n);
            int clean = 1; for (long q = 0; q < n; q++) { unsigned char c = (unsigned char)copy[q]; if (c < 0x20 || c == 0x7f) clean = 0; }
            printf("%c %d ", ok ? 'P' : 'F', clean); hex(copy, (size_t)n);
            if (!ok) { const char *m = eav_errstr(&eav); printf(" "); hex(m, strlen(m)); }
            printf("\n");
            free(copy);
            i = end;
        }
        free(buf);
    }
    eav_free(&eav);
    return 0;
}
