#!/usr/bin/env python3
"""Native replay / search for property C20: the real eav tool (bin/main.c, built from the repo under test with the guard
OFF, clang AddressSanitizer + UBSan) against replay/cli_ref.c (the expected records, written from the property text and
linked against the same library).  Used to attach a concrete input file to a refuted C20 obligation; never part of a proof.

  cli_oracle.py search <repo> <workdir>            -> prints FOUND <json> | NOTFOUND
  cli_oracle.py replay <repo> <workdir> <json>     -> exit 1 if the tool and the reference disagree on that input
json = {"files": [hex, hex, ...]}  (the files are given to the tool in this order; it processes the last one first)"""
import sys, os, glob, json, subprocess, itertools


def sh(cmd, **kw):
    p = subprocess.run(cmd, stdout=subprocess.PIPE, stderr=subprocess.PIPE, **kw)
    return p.returncode, p.stdout, p.stderr


def build(repo, work):
    d = os.path.join(work, 'cli_oracle'); os.makedirs(d, exist_ok=True)
    lib = sorted(glob.glob(repo + '/src/*.c')) + sorted(glob.glob(repo + '/partial/idn2/*.c'))
    common = ['-w', '-g', '-O1', '-D_DEFAULT_SOURCE', '-D_XOPEN_SOURCE=700', '-DHAVE_LIBIDN2', '-I' + repo + '/include', '-I' + repo]
    tool = os.path.join(d, 'eav_tool'); ref = os.path.join(d, 'cli_ref')
    # the library as an archive (bin/utf8_decode.c and src/utf8_decode.c define the same functions; with an archive the
    # linker takes the tool's copy, as the project's own build does)
    san = ['-fsanitize=address,undefined', '-fno-sanitize-recover=undefined']
    objs = []
    for c in lib:
        o_ = os.path.join(d, os.path.basename(os.path.dirname(c)) + '_' + os.path.basename(c)[:-2] + '.o')
        rc, o, e = sh(['clang'] + san + common + ['-c', c, '-o', o_])
        if rc: raise RuntimeError('library build failed: ' + e.decode(errors='replace')[-600:])
        objs.append(o_)
    ar = os.path.join(d, 'libeav_native.a')
    if os.path.exists(ar): os.remove(ar)
    rc, o, e = sh(['ar', 'rcs', ar] + objs)
    if rc: raise RuntimeError('ar failed: ' + e.decode(errors='replace')[-300:])
    rc, o, e = sh(['clang'] + san + common + [repo + '/bin/main.c', repo + '/bin/utf8_decode.c', ar, '-lidn2', '-o', tool])
    if rc: raise RuntimeError('tool build failed: ' + e.decode(errors='replace')[-600:])
    rc, o, e = sh(['clang'] + san + common + [os.path.join(os.path.dirname(os.path.abspath(__file__)), 'cli_ref.c'), ar, '-lidn2', '-o', ref])
    if rc: raise RuntimeError('reference build failed: ' + e.decode(errors='replace')[-600:])
    return tool, ref


def run_case(tool, ref, work, files):
    """files: list of bytes.  Returns (disagree, explanation)"""
    d = os.path.join(work, 'cli_oracle'); paths = []
    for i, b in enumerate(files):
        p = os.path.join(d, 'in%d.txt' % i); open(p, 'wb').write(b); paths.append(p)
    env = dict(os.environ, ASAN_OPTIONS='detect_leaks=1:abort_on_error=0:exitcode=77', LC_ALL='C')
    try:
        rc, out, err = sh([tool] + paths, env=env, timeout=60)
    except subprocess.TimeoutExpired:
        return True, 'the tool did not terminate within 60 s'
    rrc, rout, rerr = sh([ref] + list(reversed(paths)), timeout=60)       # the tool walks argv from the last argument down
    if rrc: return False, 'reference failed (%d)' % rrc
    if rc != 0 or b'AddressSanitizer' in err or b'runtime error' in err or b'LeakSanitizer' in err:
        return True, 'tool exit status %d, sanitizer/abort output: %s' % (rc, err.decode(errors='replace')[-400:].replace('\n', ' | '))
    lines = out.split(b'\n')
    if lines and lines[-1] == b'': lines.pop()
    pos = 0
    for n, rec in enumerate(rout.decode().split('\n')):
        if not rec or rec == 'C': continue
        f = rec.split(' ')
        kind, clean, echo = f[0], f[1] == '1', (bytes.fromhex(f[2]) if f[2] != '-' else b'')
        want = b'PASS: ' if kind == 'P' else b'FAIL: '
        if pos >= len(lines): return True, 'record %d: expected %r..., the tool printed nothing more' % (n, want)
        got = lines[pos]; pos += 1
        if not got.startswith(want): return True, 'record %d: expected a line starting with %r, got %r' % (n, want, got[:80])
        if clean and got[6:] != echo: return True, 'record %d: clean text must be echoed unchanged: expected %r, got %r' % (n, echo[:80], got[6:86])
        if kind == 'F':
            msg = bytes.fromhex(f[3]) if f[3] != '-' else b''
            if pos >= len(lines) or lines[pos] != b'      ' + msg:
                return True, 'record %d: FAIL must be followed by the library message %r, got %r' % (n, msg, lines[pos][:80] if pos < len(lines) else None)
            pos += 1
    if pos != len(lines): return True, 'the tool printed %d more line(s) than one record per non-comment line: %r' % (len(lines) - pos, lines[pos][:80])
    return False, 'agree'


LINES = [b'', b' ', b'\t', b'#c', b'# a@b.com', b'a@b.com', b' a@b.com', b'  a@b.com', b'a@b.com ', b'a@b.com\t', b'a@b.com  ', b'a@b.com\r',
         b'a\x00b@c.com', b'\x00', b' \x00x', b'x@example.com', b'caf\xc3\xa9@b.com', b'caf\xe9@b.com', b'\x01@b.com', b'a@b.com\x7f',
         b'a' * 255 + b'@b.com', b'a' * 256, b'\x01' * 70, b'b' * 600, b'c' * 3000 + b'@b.com']
TERMS = [b'\n', b'\r\n']


def corpus():
    for l in LINES:                       # one line, with / without terminator
        for t in TERMS + [b'']:
            yield [l + t]
    for l1, l2 in itertools.product(LINES[:20], repeat=2):     # two lines
        yield [l1 + b'\n' + l2 + b'\r\n']
    for l1 in LINES:                      # short then long, long then short
        yield [b'a@b.com\n' + l1 + b'\n' + b'x@y.org']
    for l1, l2 in itertools.product(LINES[3:12], repeat=2):    # two files
        yield [l1 + b'\n', l2 + b'\n' + l1]
    yield [b'', b'a@b.com\n']; yield [b'a@b.com\n', b'']; yield [b'a@b.com\n', b'#x\n', b'b@c.org\n']


def main():
    mode, repo, work = sys.argv[1:4]
    tool, ref = build(repo, work)
    if mode == 'replay':
        files = [bytes.fromhex(h) for h in json.loads(sys.argv[4])['files']]
        dis, why = run_case(tool, ref, work, files)
        print(json.dumps(dict(disagree=dis, explanation=why)))
        return 1 if dis else 0
    n = 0
    for files in corpus():
        n += 1
        dis, why = run_case(tool, ref, work, files)
        if dis:
            print('FOUND ' + json.dumps(dict(files=[b.hex() for b in files], explanation=why, tried=n)))
            return 0
    print('NOTFOUND tried=%d' % n)
    return 0


if __name__ == '__main__':
    sys.exit(main())
