#!/bin/sh
# Run once after a fresh restore, offline.  Nothing to download or build: the framework is Python 3
# (stdlib) + the pre-installed cbmc tool chain.  This only verifies that the tools are there.
set -e
cd "$(dirname "$0")"
for t in cbmc goto-cc goto-instrument python3 gcc make; do command -v $t >/dev/null || { echo "missing tool: $t"; exit 1; }; done
cbmc --version
mkdir -p build replays evidence
python3 -c "import sys; sys.path.insert(0,'/verif'); from vlib import props; print(len(props.JOBS),'jobs,',len(props.PROPS),'properties registered')"
